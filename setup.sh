#!/bin/bash
# Build the overlay venv used by every check: /venv's packages + /repo on sys.path + crosshair-tool/z3
# from the offline wheelhouse.  Idempotent; offline.
set -e
HERE="$(cd "$(dirname "$0")" && pwd)"
VENV="$HERE/.venv"
STAMP="$VENV/.ok"
if [ -f "$STAMP" ] && "$VENV/bin/python" -c "import z3, crosshair, py7zr, jsonschema" >/dev/null 2>&1; then
  exit 0
fi
(
  flock 9
  if [ -f "$STAMP" ] && "$VENV/bin/python" -c "import z3, crosshair, py7zr, jsonschema" >/dev/null 2>&1; then
    exit 0
  fi
  rm -rf "$VENV"
  /venv/bin/python -m venv "$VENV"
  SP="$VENV/lib/python3.12/site-packages"
  echo "import site; site.addsitedir('/venv/lib/python3.12/site-packages')" > "$SP/_verif_overlay.pth"
  echo "/repo" > "$SP/_verif_repo.pth"
  PIP_NO_INDEX=1 "$VENV/bin/pip" install -q --no-index --find-links /opt/veriftools/wheels crosshair-tool jsonschema >/dev/null
  "$VENV/bin/python" -c "import z3, crosshair, py7zr, jsonschema"
  touch "$STAMP"
) 9>"$HERE/.venv.lock"
