"""Prototype: path-forking symbolic interpreter over the real AST of py7zr leaf functions, BV-encoded ints."""
import ast
import sys
import time

import z3

W = 80  # bit width for ints; overflow is guarded by interval tracking in the real engine (prototype: trust)


class Unsupported(Exception):
    pass


class PathEnd(Exception):
    pass


class SBytes:
    def __init__(self, items):
        self.items = list(items)

    def __len__(self):
        return len(self.items)


class SStr:
    def __init__(self, cps):
        self.cps = list(cps)

    def __iter__(self):
        return iter([SStr([c]) for c in self.cps])


class SFile:
    def __init__(self, items=()):
        self.items = list(items)
        self.pos = 0


def bv(x):
    return x if z3.is_bv(x) else z3.BitVecVal(x, W)


def is_sym(x):
    return z3.is_expr(x)


class Engine:
    def __init__(self, path):
        self.tree = ast.parse(open(path).read())
        self.funcs = {n.name: n for n in self.tree.body if isinstance(n, ast.FunctionDef)}
        self.solver = z3.Solver()
        self.guards = []
        self.queries = 0
        self.solver_time = 0.0

    # --- path exploration
    def explore(self, harness):
        """harness(engine) runs one path; returns list of (decisions, result)"""
        self.results = []
        todo = [[]]
        while todo:
            prefix = todo.pop()
            self.decisions = list(prefix)
            self.cursor = 0
            self.pc = []
            self.new_alts = []
            try:
                res = harness(self)
                self.results.append((list(self.decisions), list(self.pc), res))
            except PathEnd:
                pass
            todo.extend(self.new_alts)
        return self.results

    def check(self, *extra):
        t = time.time()
        self.solver.push()
        self.solver.add(*self.pc, *extra)
        r = self.solver.check()
        m = self.solver.model() if r == z3.sat else None
        self.solver.pop()
        self.queries += 1
        self.solver_time += time.time() - t
        return r, m

    def branch(self, cond):
        if isinstance(cond, bool):
            return cond
        if not z3.is_bool(cond):
            raise Unsupported("branch on %r" % cond)
        cond = z3.simplify(cond)
        if z3.is_true(cond):
            return True
        if z3.is_false(cond):
            return False
        if self.cursor < len(self.decisions):
            d = self.decisions[self.cursor]
            self.cursor += 1
            self.pc.append(cond if d else z3.Not(cond))
            return d
        rt, _ = self.check(cond)
        rf, _ = self.check(z3.Not(cond))
        if rt == z3.unknown or rf == z3.unknown:
            raise Unsupported("solver unknown")
        if rt == z3.sat and rf == z3.sat:
            self.new_alts.append(self.decisions + [False])
            d = True
        elif rt == z3.sat:
            d = True
        elif rf == z3.sat:
            d = False
        else:
            raise PathEnd()
        self.decisions.append(d)
        self.cursor += 1
        self.pc.append(cond if d else z3.Not(cond))
        return d

    # --- interpreter
    def call(self, name, args):
        fn = self.funcs[name]
        env = {a.arg: v for a, v in zip(fn.args.args, args)}
        try:
            self.block(fn.body, env)
        except ReturnEx as r:
            return r.value
        return None

    def block(self, stmts, env):
        for s in stmts:
            self.stmt(s, env)

    def stmt(self, s, env):
        if isinstance(s, ast.Expr):
            if isinstance(s.value, ast.Constant):
                return
            self.expr(s.value, env)
        elif isinstance(s, ast.Assign):
            v = self.expr(s.value, env)
            for t in s.targets:
                self.assign(t, v, env)
        elif isinstance(s, ast.AugAssign):
            cur = self.expr(s.target, env)
            v = self.binop(s.op, cur, self.expr(s.value, env))
            self.assign(s.target, v, env)
        elif isinstance(s, ast.Return):
            raise ReturnEx(self.expr(s.value, env) if s.value else None)
        elif isinstance(s, ast.If):
            test = self.truth(self.expr(s.test, env))
            if z3.is_bool(test) and not s.orelse and self.mergeable(s.body):
                self.guards.append(test)
                try:
                    self.block(s.body, env)
                finally:
                    self.guards.pop()
            elif self.branch(test):
                self.block(s.body, env)
            else:
                self.block(s.orelse, env)
        elif isinstance(s, ast.For):
            it = self.expr(s.iter, env)
            try:
                for item in it:
                    self.assign(s.target, item, env)
                    try:
                        self.block(s.body, env)
                    except ContinueEx:
                        pass
            except BreakEx:
                pass
        elif isinstance(s, ast.Break):
            raise BreakEx()
        elif isinstance(s, ast.Continue):
            raise ContinueEx()
        else:
            raise Unsupported(ast.dump(s)[:80])

    def mergeable(self, body):
        for st in body:
            if not isinstance(st, (ast.Assign, ast.AugAssign)):
                return False
            for n in ast.walk(st):
                if isinstance(n, ast.Call):
                    return False
        return True

    def guarded(self, old, v):
        for g in self.guards:
            v = z3.If(g, bv(v), bv(old))
        return v

    def assign(self, t, v, env):
        if self.guards:
            if isinstance(t, ast.Name):
                env[t.id] = self.guarded(env[t.id], v)
            elif isinstance(t, ast.Subscript):
                obj = self.expr(t.value, env); idx = self.expr(t.slice, env)
                obj.items[idx] = self.guarded(obj.items[idx], v)
            else:
                raise Unsupported("guarded target")
            return
        if isinstance(t, ast.Name):
            env[t.id] = v
        elif isinstance(t, ast.Tuple):
            for tt, vv in zip(t.elts, v):
                self.assign(tt, vv, env)
        elif isinstance(t, ast.Subscript):
            obj = self.expr(t.value, env)
            idx = self.expr(t.slice, env)
            obj.items[idx] = v
        else:
            raise Unsupported("assign target")

    def truth(self, v):
        if z3.is_bool(v):
            return v
        if z3.is_bv(v):
            return v != 0
        if isinstance(v, SBytes):
            return len(v) > 0
        return bool(v)

    def binop(self, op, a, b):
        if isinstance(a, SBytes) and isinstance(b, SBytes) and isinstance(op, ast.Add):
            return SBytes(a.items + b.items)
        if isinstance(a, list) and isinstance(b, int):
            return a * b
        if not is_sym(a) and not is_sym(b):
            import operator as o
            table = {ast.Add: o.add, ast.Sub: o.sub, ast.Mult: o.mul, ast.FloorDiv: o.floordiv, ast.LShift: o.lshift,
                     ast.RShift: o.rshift, ast.BitOr: o.or_, ast.BitAnd: o.and_, ast.Mod: o.mod}
            if isinstance(a, SBytes) and isinstance(b, SBytes) and isinstance(op, ast.Add):
                return SBytes(a.items + b.items)
            return table[type(op)](a, b)
        a, b = bv(a), bv(b)
        if isinstance(op, ast.Add):
            return a + b
        if isinstance(op, ast.Sub):
            return a - b
        if isinstance(op, ast.BitOr):
            return a | b
        if isinstance(op, ast.BitAnd):
            return a & b
        if isinstance(op, ast.LShift):
            return a << b
        if isinstance(op, ast.RShift):
            return a >> b  # arithmetic shift == python semantics on non-overflowing ints
        raise Unsupported("binop %s" % op)

    def compare(self, op, a, b):
        if isinstance(a, SBytes) and isinstance(b, SBytes) and any(is_sym(x) for x in a.items + b.items):
            assert len(a) == len(b)
            eq = z3.And(*[bv(x) == bv(y) for x, y in zip(a.items, b.items)])
            return eq if isinstance(op, ast.Eq) else z3.Not(eq)
        if not is_sym(a) and not is_sym(b):
            import operator as o
            if isinstance(a, SBytes):
                a = bytes(a.items)
            if isinstance(b, SBytes):
                b = bytes(b.items)
            table = {ast.Lt: o.lt, ast.LtE: o.le, ast.Gt: o.gt, ast.GtE: o.ge, ast.Eq: o.eq, ast.NotEq: o.ne}
            return table[type(op)](a, b)
        a, b = bv(a), bv(b)
        if isinstance(op, ast.Lt):
            return a < b
        if isinstance(op, ast.LtE):
            return a <= b
        if isinstance(op, ast.Gt):
            return a > b
        if isinstance(op, ast.GtE):
            return a >= b
        if isinstance(op, ast.Eq):
            return a == b
        if isinstance(op, ast.NotEq):
            return a != b
        raise Unsupported("cmp")

    def expr(self, e, env):
        if isinstance(e, ast.Constant):
            if isinstance(e.value, bytes):
                return SBytes(e.value)
            return e.value
        if isinstance(e, ast.Name):
            if e.id in env:
                return env[e.id]
            if e.id == "MAX_LENGTH":
                return 65536
            if e.id == "and_":
                return lambda a, b: z3.And(a if z3.is_bool(a) else z3.BoolVal(a), b if z3.is_bool(b) else z3.BoolVal(b))
            if e.id in ("True", "False"):
                return e.id == "True"
            raise Unsupported("name " + e.id)
        if isinstance(e, ast.BoolOp):
            vals = [self.truth(self.expr(v, env)) for v in e.values]
            if all(isinstance(v, bool) for v in vals):
                return all(vals) if isinstance(e.op, ast.And) else any(vals)
            f = z3.And if isinstance(e.op, ast.And) else z3.Or
            return f(*[z3.BoolVal(v) if isinstance(v, bool) else v for v in vals])
        if isinstance(e, ast.UnaryOp) and isinstance(e.op, ast.Not):
            v = self.truth(self.expr(e.operand, env))
            return (not v) if isinstance(v, bool) else z3.Not(v)
        if isinstance(e, ast.BinOp):
            return self.binop(e.op, self.expr(e.left, env), self.expr(e.right, env))
        if isinstance(e, ast.UnaryOp) and isinstance(e.op, ast.USub):
            v = self.expr(e.operand, env)
            return -v
        if isinstance(e, ast.Compare):
            left = self.expr(e.left, env)
            res = None
            for op, c in zip(e.ops, e.comparators):
                right = self.expr(c, env)
                r = self.compare(op, left, right)
                res = r if res is None else (z3.And(res, r) if is_sym(res) or is_sym(r) else (res and r))
                left = right
            return res
        if isinstance(e, ast.Tuple):
            return tuple(self.expr(x, env) for x in e.elts)
        if isinstance(e, ast.List):
            return [self.expr(x, env) for x in e.elts]
        if isinstance(e, ast.Subscript):
            obj = self.expr(e.value, env)
            if isinstance(e.slice, ast.Slice):
                lo = self.expr(e.slice.lower, env) if e.slice.lower else None
                hi = self.expr(e.slice.upper, env) if e.slice.upper else None
                if isinstance(obj, SBytes):
                    return SBytes(obj.items[lo:hi])
                return obj[lo:hi]
            idx = self.expr(e.slice, env)
            if isinstance(obj, SBytes):
                return obj.items[idx]
            return obj[idx]
        if isinstance(e, ast.Call):
            return self.callexpr(e, env)
        raise Unsupported(ast.dump(e)[:80])

    def callexpr(self, e, env):
        args = [self.expr(a, env) for a in e.args]
        kw = {k.arg: self.expr(k.value, env) for k in e.keywords}
        f = e.func
        if isinstance(f, ast.Name):
            n = f.id
            if n in self.funcs:
                return self.call(n, args)
            if n == "pack":
                fmt, v = args
                size = {"B": 1, "<L": 4, "<Q": 8}[fmt]
                return self.to_bytes(v, size)
            if n == "unpack":
                fmt, b = args
                size = {"B": 1, "<L": 4, "<Q": 8}[fmt]
                if len(b) != size:
                    raise ModelRaise("struct.error")
                return (self.from_bytes(b),)
            if n == "ord":
                (b,) = args
                if len(b) != 1:
                    raise ModelRaise("TypeError ord")
                return b.items[0]
            if n == "bytearray":
                if isinstance(args[0], int):
                    return SBytes([0] * args[0])
                return SBytes(args[0].items)
            if n == "enumerate":
                return list(enumerate(args[0]))
            if n == "unhexlify":
                import binascii
                return SBytes(binascii.unhexlify(args[0]))
            if n == "reduce":
                fn, seq, init = args
                acc = init
                for x in seq:
                    acc = fn(acc, x)
                return acc
            if n == "int":
                return args[0]
            if n == "range":
                return range(*args)
            if n == "len":
                return len(args[0])
            raise Unsupported("call " + n)
        if isinstance(f, ast.Attribute):
            if isinstance(f.value, ast.Name) and f.value.id == "int" and f.attr == "from_bytes":
                return self.from_bytes(args[0])
            obj = self.expr(f.value, env)
            if isinstance(obj, SFile):
                if f.attr == "write":
                    obj.items.extend(args[0].items)
                    return len(args[0])
                if f.attr == "read":
                    n = args[0]
                    r = obj.items[obj.pos : obj.pos + n]
                    obj.pos += len(r)
                    return SBytes(r)
            if isinstance(obj, list) and f.attr == "append":
                obj.append(args[0]); return None
            if isinstance(obj, SStr) and f.attr == "encode":
                (cp,) = obj.cps
                if self.branch(z3.And(z3.UGE(bv(cp), 0xD800), z3.ULE(bv(cp), 0xDFFF))):
                    raise ModelRaise("UnicodeEncodeError")
                if self.branch(z3.ULT(bv(cp), 0x10000)):
                    return SBytes([bv(cp) & 0xFF, z3.LShR(bv(cp), 8) & 0xFF])
                v = bv(cp) - 0x10000
                hi = 0xD800 + (z3.LShR(v, 10) & 0x3FF)
                lo = 0xDC00 + (v & 0x3FF)
                return SBytes([hi & 0xFF, z3.LShR(hi, 8) & 0xFF, lo & 0xFF, z3.LShR(lo, 8) & 0xFF])
            if isinstance(obj, SBytes) and f.attr == "decode":
                units = [bv(obj.items[i]) | (bv(obj.items[i + 1]) << 8) for i in range(0, len(obj.items) - 1, 2)]
                if len(obj.items) % 2:
                    raise ModelRaise("UnicodeDecodeError")
                out, i = [], 0
                while i < len(units):
                    u = units[i]
                    if self.branch(z3.And(z3.UGE(u, 0xD800), z3.ULE(u, 0xDBFF))):
                        if i + 1 >= len(units) or not self.branch(z3.And(z3.UGE(units[i + 1], 0xDC00), z3.ULE(units[i + 1], 0xDFFF))):
                            raise ModelRaise("UnicodeDecodeError")
                        out.append(0x10000 + ((u - 0xD800) << 10) + (units[i + 1] - 0xDC00)); i += 2
                    elif self.branch(z3.And(z3.UGE(u, 0xDC00), z3.ULE(u, 0xDFFF))):
                        raise ModelRaise("UnicodeDecodeError")
                    else:
                        out.append(u); i += 1
                return SStr(out)
            if f.attr == "to_bytes":
                return self.to_bytes(obj, args[0])
            if f.attr == "bit_length":
                if not is_sym(obj):
                    return obj.bit_length()
                for k in range(0, W):
                    if self.branch(z3.ULT(obj, z3.BitVecVal(1 << k, W))):
                        return k
                raise Unsupported("bit_length")
            raise Unsupported("method " + f.attr)
        raise Unsupported("call")

    def to_bytes(self, v, size):
        if not is_sym(v):
            return SBytes(v.to_bytes(size, "little"))
        # python raises OverflowError when v doesn't fit: fork on it
        if size * 8 < W and self.branch(z3.Or(v < 0, v >= z3.BitVecVal(1 << (8 * size), W))):
            raise ModelRaise("OverflowError")
        return SBytes([z3.ZeroExt(W - 8, z3.Extract(8 * i + 7, 8 * i, v)) for i in range(size)])

    def from_bytes(self, b):
        acc = 0
        for i, x in enumerate(b.items):
            acc = self.binop(ast.BitOr(), acc, self.binop(ast.LShift(), x, 8 * i)) if True else acc
        return acc


class ReturnEx(Exception):
    def __init__(self, value):
        self.value = value


class BreakEx(Exception):
    pass


class ContinueEx(Exception):
    pass


class ModelRaise(Exception):
    pass




def main(n):
    eng = Engine("/repo/py7zr/archiveinfo.py")
    cps = [z3.BitVec("cp%d" % i, W) for i in range(n)]

    def harness(e):
        for c in cps:
            e.pc += [z3.UGE(c, 1), z3.ULE(c, 0x10FFFF), z3.Or(z3.ULT(c, 0xD800), z3.UGT(c, 0xDFFF))]
        f = SFile()
        e.call("write_utf16", [f, SStr(cps)])
        nbytes = len(f.items)
        f.pos = 0
        try:
            out = e.call("read_utf16", [f])
        except ModelRaise as ex:
            return ("raise", str(ex))
        return ("ok", nbytes, out, f.pos)

    res = eng.explore(harness)
    bad = 0
    for dec, pc, r in res:
        eng.pc = pc
        if r[0] != "ok":
            v, m = eng.check()
            bad += 1; print("RAISED", r, v); continue
        _, nbytes, out, pos = r
        conds = [z3.BoolVal(pos == nbytes), z3.BoolVal(len(out.cps) == n)] + [bv(a) == bv(b) for a, b in zip(out.cps, cps)]
        v, m = eng.check(z3.Not(z3.And(*conds)))
        if v != z3.unsat:
            bad += 1; print("CEX", v, m)
    return len(res), eng.queries, eng.solver_time, bad

if __name__ == "__main__":
    t0 = time.time()
    for n in range(0, 5):
        print("len", n, "paths/queries/solver_s/bad:", main(n), "wall %.1f" % (time.time() - t0))
