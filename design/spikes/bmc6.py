"""Spike: get_sanitized_output_path lexical containment (C03.1) over symbolic components."""
import sys, time, z3
from bmc5 import *

def main(nmax, dest_parts, dest_none=False):
    t0 = time.time(); tot_paths = tot_q = 0; bad = []
    dest = SPath([C(CODE[p]) for p in dest_parts])
    for n in range(1, nmax + 1):
        eng = Engine(["/repo/py7zr/helpers.py"], dest if dest_none else SPath([C(100), C(CODE["foo"])]))
        cs = [z3.Int("c%d" % i) for i in range(n)]
        def harness(e):
            for c in cs: e.pc += [c >= 0, c < ALPHA]
            name = SName([C(c) for c in cs])
            try:
                out = e.call("get_sanitized_output_path", [name, None if dest_none else dest])
            except ModelRaise as ex:
                return ("raise", str(ex))
            if dest_none:
                # returned path is relative (as given); physical location = cwd/out, lexically
                full = e.cwd.joinpath(e, out) if not out.has_root() else out
            else:
                full = out
            ok = len(full.parts) >= len(dest.parts)
            if ok:
                for a, b in zip(full.parts, dest.parts):
                    ok = ok and e.branch(a.code == b.code)
            # walk remaining parts lexically: depth must never go below 0
            depth = 0
            if ok:
                for p_ in full.parts[len(dest.parts):]:
                    if e.branch(p_.code == CODE[".."]):
                        depth -= 1
                        if depth < 0: ok = False
                    else:
                        depth += 1
            return ("ok", ok)
        res = eng.explore(harness)
        tot_paths += len(res); tot_q += eng.queries
        for dec, pc, r in res:
            if r[0] == "ok" and not r[1]:
                eng.pc = pc; _, m = eng.check()
                bad.append("/".join(NAMES[m.eval(c, model_completion=True).as_long()] for c in cs))
    print("dest", "None(cwd)" if dest_none else "/".join(dest_parts), "n<=%d paths %d queries %d wall %.1fs escapes %d %s" % (nmax, tot_paths, tot_q, time.time()-t0, len(bad), bad[:5]))

if __name__ == "__main__":
    main(int(sys.argv[1]), ["/", "foo", "a"])
    main(int(sys.argv[1]), ["/", "foo", "a"], dest_none=True)
