"""Probe 8: FilesInfo.write -> FilesInfo._read round trip under CrossHair with NUMBER summarised as tokens."""
from typing import List, Optional
import py7zr.archiveinfo as ai
from py7zr.helpers import ArchiveTimestamp


class Tok:
    __slots__ = ("kind", "val", "n")

    def __init__(self, kind, val, n):
        self.kind, self.val, self.n = kind, val, n


def numlen(v):
    if v < 0x80:
        return 1
    if v < 0x4000:
        return 2
    if v < 0x200000:
        return 3
    if v < 0x10000000:
        return 4
    if v < 0x800000000:
        return 5
    if v < 0x40000000000:
        return 6
    if v < 0x2000000000000:
        return 7
    if v < 0x100000000000000:
        return 8
    return 9


class TokenFile:
    """items: ints (bytes) or Tok (NUMBER / U32 / U64 summaries)"""

    def __init__(self, items=None):
        self.items = list(items or [])
        self.pos = 0  # item index
        self.bpos = 0

    def write(self, b):
        for x in b:
            self.items.append(x)
        return len(b)

    def put(self, tok):
        self.items.append(tok)

    def tell(self):
        if self.pos == len(self.items):
            return sum((it.n if isinstance(it, Tok) else 1) for it in self.items)
        return sum((it.n if isinstance(it, Tok) else 1) for it in self.items[: self.pos])

    def read(self, n=-1):
        out = []
        got = 0
        while self.pos < len(self.items) and (n < 0 or got < n):
            it = self.items[self.pos]
            if isinstance(it, Tok):
                out.append(it)
                got += it.n
            else:
                out.append(it)
                got += 1
            self.pos += 1
        assert n < 0 or got <= n, "sized read split a token"
        if any(isinstance(x, Tok) for x in out):
            return out  # token list (only consumed by BytesIO stub)
        return bytes(out)

    def get(self, kind):
        it = self.items[self.pos]
        if kind == "N" and isinstance(it, int) and it < 0x80:   # a raw byte < 0x80 is a valid 1-byte NUMBER
            self.pos += 1
            return it
        assert isinstance(it, Tok) and it.kind == kind, "expected token"
        self.pos += 1
        return it.val

    def seek(self, off, whence=0):
        assert whence == 1
        got = 0
        while got < off:
            it = self.items[self.pos]
            got += it.n if isinstance(it, Tok) else 1
            self.pos += 1
        assert got == off


class _IO:
    RawIOBase = object

    @staticmethod
    def BytesIO(data=b""):
        return TokenFile(data)


ai.io = _IO
ai.write_uint64 = lambda f, v: f.put(Tok("N", v, 1))
ai.read_uint64 = lambda f: f.get("N")
ai.write_uint32 = lambda f, v: f.put(Tok("U32", v, 4))
ai.read_uint32 = lambda f: (f.get("U32"), b"")
ai.write_real_uint64 = lambda f, v: f.put(Tok("U64", v, 8))
ai.read_real_uint64 = lambda f: (f.get("U64"), b"")


def chk_files3(t0: Optional[int], t1: Optional[int], t2: Optional[int],
               a0: Optional[int], a1: Optional[int], a2: Optional[int],
               e0: bool, e1: bool, e2: bool) -> bool:
    """
    pre: all(x is None or 0 <= x < 2**64 for x in (t0, t1, t2))
    pre: all(x is None or 0 <= x < 2**32 for x in (a0, a1, a2))
    post: _
    """
    fi = ai.FilesInfo()
    names = ["a", "b/c", "d"]
    fi.files = []
    for nm, t, a, e in zip(names, (t0, t1, t2), (a0, a1, a2), (e0, e1, e2)):
        d = {"filename": nm, "emptystream": e}
        if t is not None:
            d["lastwritetime"] = t
        d["attributes"] = a
        fi.files.append(d)
    fi.emptyfiles = [False for e in (e0, e1, e2) if e]
    f = TokenFile()
    fi.write(f)
    f.pos = 0
    assert f.read(1) == ai.PROPERTY.FILES_INFO
    back = ai.FilesInfo.retrieve(f)
    ok = len(back.files) == 3
    for orig, got in zip(fi.files, back.files):
        ok = ok and got["filename"] == orig["filename"]
        ok = ok and got["emptystream"] == orig["emptystream"]
        ok = ok and got.get("lastwritetime") == orig.get("lastwritetime")
        ok = ok and got.get("attributes") == orig.get("attributes")
    return ok
