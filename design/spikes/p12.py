"""Probe C12: call sequences on one session vs fresh session (CrossHair), position-tracking decoder stub with exhaustion."""
import io
import queue

import py7zr.archiveinfo as ai
import py7zr.py7zr as core
import py7zr.compressor as comp
from p6 import build, run
from p9 import RecFactory, Chunk

core.calculate_crc32 = lambda data, value=0, blocksize=0: 0
core.get_memory_limit = lambda: 1 << 60


class NoProgress(Exception):
    pass


class StubDecomp:
    """stands in for SevenZipDecompressor: ideal stream of `total` bytes, then nothing"""
    crc = None

    def __init__(self, fid, total):
        self.fid, self.pos, self.total, self.empty = fid, 0, total, 0

    def decompress(self, fp, max_length=-1):
        n = min(max_length, self.total - self.pos)
        if n <= 0:
            self.empty += 1
            if self.empty >= 3:
                raise NoProgress("decoder exhausted and caller keeps asking: infinite loop")
            return Chunk(self.fid, self.pos, 0)
        c = Chunk(self.fid, self.pos, n)
        self.pos += n
        return c


def fresh(sizes, nf):
    h = build(nf, sizes, [0] * len(sizes), [False] * len(sizes), [False] * len(sizes), [7] * len(nf))
    z = run(h)
    k = 0
    for i, f in enumerate(h.main_streams.unpackinfo.folders):
        tot = sum(sizes[k:k + nf[i]])
        k += nf[i]
    z.fp = io.BytesIO(bytes(64))
    z._filePassed = True
    z.mode = "r"
    z.q = queue.Queue()
    z.reporterd = None
    z.mp = False
    z.worker = core.Worker(z.files, 32, h, False)
    return z


# Folder.get_decompressor builds SevenZipDecompressor(coders, packsize, unpacksizes, crc, password): rebind the class
_folder_ids = {}


def _mk_decomp(coders, packsize, unpacksizes, crc, password=None, blocksize=None):
    return StubDecomp(0, unpacksizes[-1])


ai.SevenZipDecompressor = _mk_decomp


def do(z, op):
    if op == 0:
        return ("names", tuple(z.getnames()))
    if op == 1:
        return ("testzip", z.testzip())
    if op == 2:
        fac = RecFactory()
        z.extractall(factory=fac)
        return ("all", tuple((n, c.off, c.n) for n, c in fac.log))
    if op == 3:
        z.reset()
        return ("reset", None)
    if op == 4:
        fac = RecFactory()
        z.extract(targets=["f1"], factory=fac)
        return ("sel", tuple((n, c.off, c.n) for n, c in fac.log))
    return ("list", tuple((f.filename, f.uncompressed) for f in z.list()))


def allowed(ops):
    decoded = False
    for op in ops:
        if op in (2, 4) and decoded:
            return False      # extract after a decoding call needs reset() first (property's side condition)
        if op in (1, 2, 4):
            decoded = True
        if op == 3:
            decoded = False
    return True


def chk_seq(s0: int, s1: int, s2: int, o0: int, o1: int, o2: int, split: int) -> bool:
    """
    pre: 1 <= s0 < 2**40 and 1 <= s1 < 2**40 and 1 <= s2 < 2**40
    pre: 0 <= o0 <= 5 and 0 <= o1 <= 5 and 0 <= o2 <= 5 and 1 <= split <= 3
    pre: allowed([o0, o1, o2])
    post: _
    """
    sizes = [s0, s1, s2]
    nf = [n for n in (split, 3 - split) if n > 0]
    z = fresh(sizes, nf)
    ok = True
    for op in (o0, o1, o2):
        got = do(z, op)
        want = do(fresh(sizes, nf), op)
        ok = ok and got == want
    return ok


def chk_shard_232(s0: int, s1: int, s2: int) -> bool:
    """
    pre: 1 <= s0 < 2**40 and 1 <= s1 < 2**40 and 1 <= s2 < 2**40
    post: _
    """
    return chk_seq(s0, s1, s2, 2, 3, 2, 2)


def chk_shard_214(s0: int, s1: int, s2: int) -> bool:
    """
    pre: 1 <= s0 < 2**40 and 1 <= s1 < 2**40 and 1 <= s2 < 2**40
    post: _
    """
    return chk_seq(s0, s1, s2, 1, 3, 4, 1)
