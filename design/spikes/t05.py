import io, struct, zlib, sys, resource, time
import py7zr
from py7zr.archiveinfo import write_uint64
def seal(header: bytes) -> bytes:
    tail = struct.pack("<QQL", 0, len(header), zlib.crc32(header))
    return b"7z\xbc\xaf\x27\x1c\x00\x04" + struct.pack("<L", zlib.crc32(tail)) + tail + header
which = sys.argv[1]
b = io.BytesIO()
if which == "numfiles":
    b.write(b"\x01\x05"); write_uint64(b, 2**36); b.write(b"\x00\x00")
elif which == "numstreams":
    b.write(b"\x01\x04\x06"); write_uint64(b, 0); write_uint64(b, 2**36); b.write(b"\x00\x00\x00")
data = seal(b.getvalue())
print(which, "archive bytes:", len(data))
resource.setrlimit(resource.RLIMIT_AS, (3 << 30, 3 << 30))
t = time.time()
try:
    py7zr.SevenZipFile(io.BytesIO(data))
    print("opened")
except BaseException as e:
    print("raised", type(e).__name__, "after %.1fs" % (time.time() - t), "maxrss MB", resource.getrusage(resource.RUSAGE_SELF).ru_maxrss // 1024)
