"""Spike: AST interpreter + rope domain (z3 Int lengths) on the real AESCompressor/Buffer code."""
import ast
import sys
import time

import z3

from bmc import PathEnd, Unsupported, ReturnEx, BreakEx, ContinueEx


def is_sym(x):
    return z3.is_expr(x)


class SObj:
    def __init__(self, cls):
        self.cls = cls
        self.attrs = {}


class Rope:
    """content-abstract bytes: list of (src, off, len); off/len python ints or z3 Int terms"""

    def __init__(self, segs=()):
        self.segs = list(segs)

    def length(self):
        n = 0
        for s in self.segs:
            n = n + s[2]
        return z3.simplify(n) if is_sym(n) else n


class Engine:
    def __init__(self, paths):
        self.classes, self.funcs = {}, {}
        for p in paths:
            tree = ast.parse(open(p).read())
            for n in tree.body:
                if isinstance(n, ast.ClassDef):
                    self.classes[n.name] = {m.name: m for m in n.body if isinstance(m, ast.FunctionDef)}
                elif isinstance(n, ast.FunctionDef):
                    self.funcs[n.name] = n
        self.solver = z3.Solver()
        self.queries = 0
        self.solver_time = 0.0

    # ---- exploration (same scheme as bmc.py)
    def explore(self, harness):
        results, todo = [], [[]]
        while todo:
            prefix = todo.pop()
            self.decisions, self.cursor, self.pc, self.new_alts = list(prefix), 0, [], []
            try:
                res = harness(self)
                results.append((list(self.decisions), list(self.pc), res))
            except PathEnd:
                pass
            todo.extend(self.new_alts)
        return results

    def check(self, *extra):
        t = time.time()
        self.solver.push()
        self.solver.add(*self.pc, *extra)
        r = self.solver.check()
        m = self.solver.model() if r == z3.sat else None
        self.solver.pop()
        self.queries += 1
        self.solver_time += time.time() - t
        return r, m

    def branch(self, cond):
        if isinstance(cond, bool):
            return cond
        cond = z3.simplify(cond)
        if z3.is_true(cond):
            return True
        if z3.is_false(cond):
            return False
        if self.cursor < len(self.decisions):
            d = self.decisions[self.cursor]
            self.cursor += 1
            self.pc.append(cond if d else z3.Not(cond))
            return d
        rt, _ = self.check(cond)
        rf, _ = self.check(z3.Not(cond))
        if z3.unknown in (rt, rf):
            raise Unsupported("solver unknown")
        if rt == z3.sat and rf == z3.sat:
            self.new_alts.append(self.decisions + [False])
            d = True
        elif rt == z3.sat:
            d = True
        elif rf == z3.sat:
            d = False
        else:
            raise PathEnd()
        self.decisions.append(d)
        self.cursor += 1
        self.pc.append(cond if d else z3.Not(cond))
        return d

    # ---- rope operations (fork on cut positions)
    def rope_cut(self, rope, k):
        left, right, pos = [], [], 0
        for (src, off, ln) in rope.segs:
            if self.branch(pos + ln <= k):
                left.append((src, off, ln))
            elif self.branch(pos >= k):
                right.append((src, off, ln))
            else:
                a = k - pos
                left.append((src, off, a))
                right.append((src, off + a, ln - a))
            pos = pos + ln
        return left, right

    def rope_slice(self, rope, lo, hi):
        n = rope.length()
        lo = 0 if lo is None else lo
        hi = n if hi is None else hi
        if self.branch(lo < 0):
            lo = lo + n
            if self.branch(lo < 0):
                lo = 0
        if self.branch(hi < 0):
            hi = hi + n
            if self.branch(hi < 0):
                hi = 0
        if self.branch(lo > n):
            lo = n
        if self.branch(hi > n):
            hi = n
        if self.branch(hi <= lo):
            return Rope()
        _, r = self.rope_cut(rope, lo)
        l, _ = self.rope_cut(Rope(r), hi - lo)
        return Rope(l)

    def rope_norm(self, rope):
        out = []
        for (src, off, ln) in rope.segs:
            if self.branch(ln == 0):
                continue
            if out and out[-1][0] == src and self.branch(out[-1][1] + out[-1][2] == off):
                out[-1] = (src, out[-1][1], out[-1][2] + ln)
            else:
                out.append((src, off, ln))
        return out

    # ---- interpreter
    def new(self, clsname, *args):
        o = SObj(clsname)
        if "__init__" in self.classes[clsname]:
            self.call_method(o, "__init__", list(args))
        return o

    def call_method(self, obj, name, args, kw=None):
        fn = self.classes[obj.cls][name]
        params = [a.arg for a in fn.args.args]
        env = {params[0]: obj}
        defaults = fn.args.defaults
        for i, p in enumerate(params[1:]):
            if i < len(args):
                env[p] = args[i]
            elif kw and p in kw:
                env[p] = kw[p]
            else:
                d = defaults[i - (len(params) - 1 - len(defaults))]
                env[p] = self.expr(d, env)
        try:
            self.block(fn.body, env)
        except ReturnEx as r:
            return r.value
        return None

    def block(self, stmts, env):
        for s in stmts:
            self.stmt(s, env)

    def stmt(self, s, env):
        if isinstance(s, ast.Expr):
            if not isinstance(s.value, ast.Constant):
                self.expr(s.value, env)
        elif isinstance(s, ast.Assign):
            v = self.expr(s.value, env)
            for t in s.targets:
                self.assign(t, v, env)
        elif isinstance(s, ast.AugAssign):
            v = self.binop(s.op, self.expr(s.target, env), self.expr(s.value, env))
            self.assign(s.target, v, env)
        elif isinstance(s, ast.Return):
            raise ReturnEx(self.expr(s.value, env) if s.value else None)
        elif isinstance(s, ast.If):
            if self.branch(self.truth(self.expr(s.test, env))):
                self.block(s.body, env)
            else:
                self.block(s.orelse, env)
        elif isinstance(s, ast.Pass):
            pass
        else:
            raise Unsupported(ast.dump(s)[:80])

    def assign(self, t, v, env):
        if isinstance(t, ast.Name):
            env[t.id] = v
        elif isinstance(t, ast.Attribute):
            self.expr(t.value, env).attrs[t.attr] = v
        elif isinstance(t, ast.Subscript):
            obj = self.expr(t.value, env)
            sl = t.slice
            assert isinstance(obj, Rope) and isinstance(sl, ast.Slice) and sl.upper is None
            lo = self.expr(sl.lower, env) if sl.lower else 0
            keep = self.rope_slice(obj, 0, lo)
            obj.segs = keep.segs + list(v.segs)   # bytearray ba[k:] = data
        else:
            raise Unsupported("assign")

    def truth(self, v):
        if z3.is_bool(v) or isinstance(v, bool):
            return v
        if z3.is_int(v) or isinstance(v, int):
            return v != 0
        raise Unsupported("truth")

    def binop(self, op, a, b):
        if isinstance(a, Rope) and isinstance(op, ast.Add):
            return Rope(a.segs + b.segs)
        if isinstance(op, ast.Add):
            return a + b
        if isinstance(op, ast.Sub):
            return a - b
        if isinstance(op, ast.Mult):
            return a * b
        if isinstance(op, ast.BitAnd):
            if not is_sym(a) and not is_sym(b):
                return a & b
            sym, c = (a, b) if is_sym(a) else (b, a)
            assert isinstance(c, int)
            if c >= 0 and (c + 1) & c == 0:          # mask 2^k-1
                return sym % (c + 1)
            if c < 0 and (~c + 1) & ~c == 0:         # mask ~(2^k-1)
                return sym - sym % (~c + 1)
            raise Unsupported("& with mask %d" % c)
        raise Unsupported("binop")

    def expr(self, e, env):
        if isinstance(e, ast.Constant):
            if isinstance(e.value, bytes):
                return Rope([("LIT", 0, len(e.value))] if e.value else [])
            return e.value
        if isinstance(e, ast.Name):
            if e.id in env:
                return env[e.id]
            raise Unsupported("name " + e.id)
        if isinstance(e, ast.Attribute):
            obj = self.expr(e.value, env)
            if isinstance(obj, SObj):
                if e.attr in obj.attrs:
                    return obj.attrs[e.attr]
                if e.attr == "AES_CBC_BLOCKSIZE":
                    return 16
            raise Unsupported("attr " + e.attr)
        if isinstance(e, ast.BinOp):
            return self.binop(e.op, self.expr(e.left, env), self.expr(e.right, env))
        if isinstance(e, ast.UnaryOp):
            v = self.expr(e.operand, env)
            if isinstance(e.op, ast.USub):
                return -v
            if isinstance(e.op, ast.Invert):
                return ~v
            raise Unsupported("unary")
        if isinstance(e, ast.BoolOp):
            vals = [self.truth(self.expr(v, env)) for v in e.values]   # no short-circuit: operands here are pure
            f = z3.And if isinstance(e.op, ast.And) else z3.Or
            return f(*[z3.BoolVal(v) if isinstance(v, bool) else v for v in vals])
        if isinstance(e, ast.Compare):
            left = self.expr(e.left, env)
            res = []
            for op, c in zip(e.ops, e.comparators):
                right = self.expr(c, env)
                res.append({ast.Lt: lambda a, b: a < b, ast.LtE: lambda a, b: a <= b, ast.Gt: lambda a, b: a > b,
                            ast.GtE: lambda a, b: a >= b, ast.Eq: lambda a, b: a == b,
                            ast.NotEq: lambda a, b: a != b}[type(op)](left, right))
                left = right
            if len(res) == 1:
                return res[0]
            return z3.And(*[z3.BoolVal(v) if isinstance(v, bool) else v for v in res])
        if isinstance(e, ast.Subscript):
            obj = self.expr(e.value, env)
            assert isinstance(obj, Rope) and isinstance(e.slice, ast.Slice)
            lo = self.expr(e.slice.lower, env) if e.slice.lower else None
            hi = self.expr(e.slice.upper, env) if e.slice.upper else None
            return self.rope_slice(obj, lo, hi)
        if isinstance(e, ast.Call):
            args = [self.expr(a, env) for a in e.args]
            f = e.func
            if isinstance(f, ast.Name):
                if f.id == "len":
                    o = args[0]
                    if isinstance(o, SObj):
                        return self.call_method(o, "__len__", [])
                    return o.length()
                if f.id == "memoryview":
                    return Rope(args[0].segs)
                if f.id == "bytearray":
                    return Rope([("ZERO", 0, args[0])])
                if f.id == "bytes":
                    return Rope([("PAD", 0, args[0])])
                raise Unsupported("call " + f.id)
            if isinstance(f, ast.Attribute):
                obj = self.expr(f.value, env)
                if isinstance(obj, SObj):
                    return self.call_method(obj, f.attr, args)
                return getattr(obj, f.attr)(self, *args)     # native stub object
            raise Unsupported("call")
        raise Unsupported(ast.dump(e)[:80])


class StubCipher:
    def __init__(self):
        self.fed = Rope()
        self.bad = False
        self.out = 0

    def encrypt(self, eng, view):
        n = view.length()
        if eng.branch(n % 16 != 0):
            self.bad = True
        self.fed = Rope(self.fed.segs + view.segs)
        r = Rope([("CT", self.out, n)])
        self.out = self.out + n
        return r


def main(k):
    eng = Engine(["/repo/py7zr/compressor.py", "/repo/py7zr/io.py"])
    ls = [z3.Int("l%d" % i) for i in range(k)]

    def harness(e):
        for l in ls:
            e.pc.append(l >= 0)
        c = SObj("AESCompressor")
        c.attrs["cipher"] = StubCipher()
        c.attrs["flushed"] = False
        c.attrs["buf"] = e.new("Buffer", 64)
        out, off = Rope(), 0
        for l in ls:
            r = e.call_method(c, "compress", [Rope([("IN", off, l)])])
            out = Rope(out.segs + r.segs)
            off = off + l
        r = e.call_method(c, "flush", [])
        out = Rope(out.segs + r.segs)
        cip = c.attrs["cipher"]
        return cip.bad, e.rope_norm(cip.fed), e.rope_norm(out), off

    t0 = time.time()
    results = eng.explore(harness)
    bad = 0
    for dec, pc, (cbad, fed, out, total) in results:
        eng.pc = pc
        pad = (-total) % 16
        # expected normal forms
        conds = [z3.BoolVal(not cbad)]
        # fed must be IN[0,total) ++ PAD[0,pad)
        exp = []
        shape_ok = True
        srcs = [s[0] for s in fed]
        if srcs == ["IN", "PAD"]:
            conds += [fed[0][1] == 0, fed[0][2] == total, fed[1][1] == 0, fed[1][2] == pad]
        elif srcs == ["IN"]:
            conds += [fed[0][1] == 0, fed[0][2] == total, pad == 0]
        elif srcs == []:
            conds += [total == 0]
        else:
            shape_ok = False
        if [s[0] for s in out] == ["CT"]:
            conds += [out[0][1] == 0, out[0][2] == total + pad]
        elif out == []:
            conds += [total == 0]
        else:
            shape_ok = False
        if not shape_ok:
            r, m = eng.check()
            print("SHAPE", srcs, [s[0] for s in out], r, m)
            bad += 1
            continue
        r, m = eng.check(z3.Not(z3.And(*conds)))
        if r != z3.unsat:
            print("CEX", r, m)
            bad += 1
    print("chunks", k, "paths", len(results), "queries", eng.queries, "solver_s %.2f" % eng.solver_time,
          "wall %.2f" % (time.time() - t0), "bad", bad)


if __name__ == "__main__":
    main(int(sys.argv[1]))
