import z3, time
s = z3.String("s")
digit = z3.Range("0", "9")
unit = z3.Union(*[z3.Re(c) for c in "bkmgBKMG"])
valid = z3.Concat(z3.Plus(digit), z3.Option(unit))          # ^([0-9]+)([bkmg]?)$ IGNORECASE
num, u = z3.String("num"), z3.String("u")
sol = z3.Solver()
sol.add(z3.InRe(s, valid), z3.Length(s) <= 8)
sol.add(s == z3.Concat(num, u), z3.InRe(num, z3.Plus(digit)), z3.InRe(u, z3.Option(unit)))
keys = ["b","B","k","K","m","M","g","G"]       # Cli.dunits keys (read from the real class at run time)
sol.add(z3.And(*[u != z3.StringVal(k) for k in keys]))   # dict lookup would raise KeyError
t=time.time(); r = sol.check(); print(r, "%.2fs"%(time.time()-t), sol.model()[s] if r==z3.sat else "")
