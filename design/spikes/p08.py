"""Probe C08: append step on a symbolic base header (implicit or explicit substream sizes), CrossHair + token summaries."""
import io

import p8  # installs token summaries for NUMBER/UINT32/UINT64 into archiveinfo, TokenFile
import py7zr.archiveinfo as ai
import py7zr.py7zr as core
import py7zr.helpers as _helpers
from p6 import build, run
from p15 import StubCompressor, _FakeTime

_helpers._time = _FakeTime


def chk_append(b0: int, b1: int, s1: int, s2: int, implicit: bool, two_base_folders: bool, pos0: int) -> bool:
    """
    pre: 1 <= b0 < 2**40 and 1 <= b1 < 2**40 and 1 <= s1 < 2**40 and 1 <= s2 < 2**40
    pre: 0 <= pos0 <= 3
    post: _
    """
    # base archive: either one folder with 2 files, or two folders with one file each (sizes then implicit if asked)
    if two_base_folders:
        nf = [1, 1]
    else:
        nf = [2]
    sizes = [b0, b1]
    h = build(nf, sizes, [11, 22], [True, True], [False, False], [7] * len(nf))
    h.main_streams.packinfo.enable_digests = False  # as PackInfo._read leaves it when no packed CRCs are stored
    if implicit and two_base_folders:
        h.main_streams.substreamsinfo.unpacksizes = None  # as parsed when NumUnpackStream/Size are omitted
    z = run(h)
    z.mode = "a"
    z.dereference = False
    z.header.filters = [{"id": 0x33}]
    z.header.password = None
    z.worker = core.Worker(z.files, 32 + h.main_streams.packinfo.packpositions[-1], z.header, False)
    folder = z.header.initialize()
    comp = StubCompressor(0, s1)
    folder.compressor = comp
    z.writestr(b"", "n1")
    comp.size = s2
    z.writestr(b"", "n2")
    comp.packsize = s1 + s2
    comp.unpacksizes = [s1 + s2]
    z.worker.flush_archive(z.fp, folder)
    out = p8.TokenFile()
    out.tell = lambda: pos0   # file position is an arbitrary value: padding is cosmetic
    z.header.write(out, 32, encoded=False)
    out.pos = 0
    assert out.read(1) == ai.PROPERTY.HEADER
    h2 = ai.Header()
    h2._extract_header_info(out)
    z2 = run(h2)
    got = [f.uncompressed for f in z2.files]
    names = [f.filename for f in z2.files]
    return got == [b0, b1, s1, s2] and names == ["f0", "f1", "n1", "n2"]


class TokenCrc:
    """stands in for archiveinfo.WriteWithCrc over a TokenFile (CRC abstracted)"""

    def __init__(self, fp):
        self._fp = fp
        self.digest = 0

    def write(self, data):
        return self._fp.write(data)

    def put(self, tok):
        return self._fp.put(tok)

    def tell(self):
        return self._fp.tell()


ai.WriteWithCrc = TokenCrc
ai.read_crcs = lambda f, count: [f.get("U32") for _ in range(count)]
