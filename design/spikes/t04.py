import io, os, py7zr, pathlib
os.chdir("/tmp/probe/work04")
os.makedirs("src", exist_ok=True)
pathlib.Path("src/target.txt").write_bytes(b"data")
if not os.path.lexists("src/lnk"): os.symlink("target.txt", "src/lnk")
buf = io.BytesIO()
with py7zr.SevenZipFile(buf, "w", filters=[{"id": py7zr.FILTER_COPY}]) as z:
    z.set_encoded_header_mode(False)
    os.chdir("src"); z.write("lnk"); z.write("target.txt"); os.chdir("..")
raw = bytearray(buf.getvalue())
i = raw.find(b"target.txt", 32)
print("packed link target at", i, bytes(raw[i:i+10]))
raw[i] = ord("T")   # damage the stored link target (packed area), CRCs untouched
os.makedirs("out", exist_ok=True)
try:
    with py7zr.SevenZipFile(io.BytesIO(bytes(raw))) as z:
        z.extractall("out")
    print("extract OK; link ->", os.readlink("out/lnk"))
except Exception as e:
    print("raised", repr(e))
with py7zr.SevenZipFile(io.BytesIO(bytes(raw))) as z:
    print("testzip:", z.testzip())
