"""Probe C18: event stream of one extraction with symbolic clock and chunking (CrossHair)."""
import io
import queue
from typing import List

import py7zr.archiveinfo as ai
import py7zr.py7zr as core
from py7zr.callbacks import ExtractCallback
from p6 import build, run
from p9 import RecFactory, Chunk

core.calculate_crc32 = lambda data, value=0, blocksize=0: 0


class FakeThread:
    def __init__(self, target=None, args=(), daemon=None):
        self.target, self.args = target, args

    def start(self):
        pass

    def join(self, timeout=None):
        pass

    def is_alive(self):
        return False


core.Thread = FakeThread


class Clock:
    def __init__(self, steps):
        self.steps, self.now, self.i = steps, 0, 0

    def time(self):
        d = self.steps[self.i % len(self.steps)]
        self.i += 1
        self.now += d
        return self.now


class ChunkyDecomp:
    """returns at most `cap` bytes per call (symbolic chunking), honouring max_length"""
    crc = None

    def __init__(self, fid, cap):
        self.fid, self.pos, self.cap = fid, 0, cap

    def decompress(self, fp, max_length=-1):
        n = min(max_length, self.cap)
        c = Chunk(self.fid, self.pos, n)
        self.pos += n
        return c


class CB(ExtractCallback):
    def report_start_preparation(self): pass
    def report_start(self, p, b): pass
    def report_update(self, b): pass
    def report_end(self, p, b): pass
    def report_warning(self, m): pass
    def report_postprocess(self): pass


def chk_events(s0: int, s1: int, cap: int, d0: int, d1: int, t0: bool, t1: bool) -> bool:
    """
    pre: 1 <= s0 <= 6 and 1 <= s1 <= 6 and 1 <= cap <= 6
    pre: 0 <= d0 <= 2 and 0 <= d1 <= 2
    post: _
    """
    sizes = [s0, s1]
    h = build([2], sizes, [0, 0], [False, False], [False, False], [7])
    z = run(h)
    h.main_streams.unpackinfo.folders[0].decompressor = ChunkyDecomp(0, cap)
    z.fp = io.BytesIO(bytes(64))
    z._filePassed = True
    z.mode = "r"
    z.q = queue.Queue()
    z.reporterd = None
    z.mp = False
    z.worker = core.Worker(z.files, 32, h, False)
    core.time = Clock([d0, d1])
    core.get_memory_limit = lambda: 1 << 60
    T = [n for n, t in zip(["f0", "f1"], (t0, t1)) if t]
    fac = RecFactory()
    z.extract(targets=T, factory=fac, callback=CB())
    ev = []
    while not z.q.empty():
        ev.append(z.q.get())
    ok = len(ev) >= 2 and ev[0][0] == "pre" and ev[-1][0] == "post"
    body = ev[1:-1]
    # per member: s ... (u)* ... e ; u sums == size for delivered members
    i = 0
    for name, size, sel in zip(["f0", "f1"], sizes, (t0, t1)):
        if i >= len(body):
            break
        ok = ok and body[i][0] == "s" and body[i][1] == name
        i += 1
        tot = 0
        while i < len(body) and body[i][0] == "u":
            tot += int(body[i][2])
            i += 1
        ok = ok and i < len(body) and body[i][0] == "e" and body[i][1] == name and body[i][2] == str(size)
        i += 1
        if sel:
            ok = ok and tot == size
    return ok
