"""Probe 9: real extract()/_extract/Worker.extract/_extract_single on an object graph with stub decoder, symbolic selection."""
import io
import queue
from typing import List

import py7zr.archiveinfo as ai
import py7zr.py7zr as core
from py7zr.io import WriterFactory, Py7zIO
from p6 import build, run


class Rec(Py7zIO):
    def __init__(self, name, log):
        self.name, self.log, self.n = name, log, 0

    def write(self, s):
        self.log.append((self.name, s))
        self.n += len(s)
        return len(s)

    def read(self, size=None):
        return b""

    def seek(self, offset, whence=0):
        return 0

    def flush(self):
        pass

    def size(self):
        return self.n


class RecFactory(WriterFactory):
    def __init__(self):
        self.log = []
        self.created = []

    def create(self, filename):
        self.created.append(filename)
        return Rec(filename, self.log)


class Chunk:
    """opaque decoded chunk: (folder id, start offset, length)"""

    def __init__(self, fid, off, n):
        self.fid, self.off, self.n = fid, off, n

    def __len__(self):
        return self.n


class StubDecomp:
    crc = None

    def __init__(self, fid):
        self.fid, self.pos = fid, 0

    def decompress(self, fp, max_length=-1):
        assert max_length >= 0
        c = Chunk(self.fid, self.pos, max_length)  # honouring decoder, returns exactly what is asked
        self.pos += max_length
        return c


def mk(sizes, nf, empties):
    h = build(nf, sizes, [0] * len(sizes), [False] * len(sizes), empties, [7] * len(nf))
    z = run(h)
    for i, f in enumerate(h.main_streams.unpackinfo.folders):
        f.decompressor = StubDecomp(i)
    z.fp = io.BytesIO(bytes(64))
    z._filePassed = True
    z.mode = "r"
    z.q = queue.Queue()
    z.reporterd = None
    z.mp = False
    z.worker = core.Worker(z.files, 32, h, False)
    return z, h


_orig_crc = core.calculate_crc32
core.calculate_crc32 = lambda data, value=0, blocksize=0: 0
core.get_memory_limit = lambda: 1 << 60


def chk_sel(s0: int, s1: int, s2: int, t0: bool, t1: bool, t2: bool, t3: bool, split: int) -> bool:
    """
    pre: 1 <= s0 < 2**40 and 1 <= s1 < 2**40 and 1 <= s2 < 2**40
    pre: 0 <= split <= 3
    post: _
    """
    nf = [n for n in (split, 3 - split) if n > 0]
    sizes = [s0, s1, s2]
    empties = [False, False, True, False]  # f0 f1 (f2 empty) f3
    z, h = mk(sizes, nf, empties)
    names = ["f0", "f1", "f2", "f3"]
    T = [n for n, t in zip(names, (t0, t1, t2, t3)) if t] + ["absent"]
    fac = RecFactory()
    z.extract(targets=T, factory=fac)
    # expectation
    offs = {}
    k = 0
    pos = {0: 0, 1: 0}
    for i, nm in enumerate(names):
        if empties[i]:
            continue
        fid = 0 if k < split else (1 if split > 0 else 0)
        offs[nm] = (fid, pos[fid], sizes[k])
        pos[fid] += sizes[k]
        k += 1
    ok = sorted(fac.created) == sorted(n for n in T if n in names)
    got = {}
    for name, ch in fac.log:
        got.setdefault(name, []).append((ch.fid, ch.off, ch.n))
    for nm in T:
        if nm in offs:
            ok = ok and got.get(nm) == [offs[nm]]
    ok = ok and all(nm in T for nm in got)
    return ok
