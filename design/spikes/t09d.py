import sys; sys.path.insert(0, sys.argv[1])
import io, os, py7zr
print(py7zr.__file__)
os.makedirs("/tmp/probe/fixwork/w9/d", exist_ok=True); os.chdir("/tmp/probe/fixwork/w9")
p = "t.7z"
if os.path.exists(p): os.remove(p)
with py7zr.SevenZipFile(p, "w") as z:
    z.writestr(b"zero", "f0a"); z.writestr(b"ZERO", "f0b")
with py7zr.SevenZipFile(p, "a") as z:
    z.writestr(b"one", "f1"); z.write("d"); z.writestr(b"three", "f3")
for how in ("path", "stream"):
    src = p if how == "path" else io.BytesIO(open(p, "rb").read())
    with py7zr.SevenZipFile(src) as z:
        f = py7zr.io.BytesIOFactory(1 << 20); z.extract(targets=["f3"], factory=f)
        sel = {k: v._buffer.getvalue() for k, v in f.products.items()}
        z.reset(); f2 = py7zr.io.BytesIOFactory(1 << 20); z.extractall(factory=f2)
        allm = {k: v._buffer.getvalue() for k, v in f2.products.items()}
    print(how, "extract(['f3']) ->", sel, "| extractall ->", allm)
