import io, os, py7zr
p = "/tmp/probe/work09/u.7z"
def trial(filters, d0, d1, d3, second=True):
    if os.path.exists(p): os.remove(p)
    with py7zr.SevenZipFile(p, "w", filters=filters) as z:
        z.writestr(d0, "f0")
    with py7zr.SevenZipFile(p, "a", filters=filters) as z:
        z.writestr(d1, "f1")
        if second: z.writestr(d3, "f3")
    try:
        with py7zr.SevenZipFile(p) as z:
            f = py7zr.io.BytesIOFactory(1 << 20); z.extractall(factory=f)
            got = {k: v._buffer.getvalue() for k, v in f.products.items()}
            h = z.header.main_streams
            return "OK" if got == ({"f0": d0, "f1": d1, "f3": d3} if second else {"f0": d0, "f1": d1}) else ("WRONG", got)
    except Exception as e:
        with py7zr.SevenZipFile(p) as z:
            h = z.header.main_streams
            info = (h.packinfo.packsizes, [f.unpacksizes for f in h.unpackinfo.folders], h.substreamsinfo.num_unpackstreams_folders, h.substreamsinfo.unpacksizes)
        return ("RAISED", repr(e), info)
L2 = [{"id": py7zr.FILTER_LZMA2, "preset": 1}]
CP = [{"id": py7zr.FILTER_COPY}]
print("default, 2 appended:", trial(None, b"zero", b"one", b"three"))
print("default, 1 appended:", trial(None, b"zero", b"one", b"three", second=False))
print("lzma2,   2 appended:", trial(L2, b"zero", b"one", b"three"))
print("copy,    2 appended:", trial(CP, b"zero", b"one", b"three"))
print("default, big       :", trial(None, b"zero"*1000, b"one"*1000, b"three"*1000))
