import io, py7zr
class Bad(io.BufferedIOBase):
    def __init__(self, n): self.n=n; self.p=0
    def seekable(self): return True
    def tell(self): return self.p
    def seek(self, o, w=0):
        self.p = {0:o,1:self.p+o,2:self.n+o}[w]; return self.p
    def read(self, k=-1): raise OSError(5, "EIO")
buf = io.BytesIO()
z = py7zr.SevenZipFile(buf, "w")
z.writestr(b"first", "a.txt")
try:
    z.writef(Bad(10), "bad.bin")
except OSError as e:
    print("caller saw", repr(e))
try:
    z.writestr(b"third", "c.txt")
    print("third write ok")
except Exception as e:
    print("third write raised", repr(e))
try:
    z.close(); print("closed")
except Exception as e:
    print("close raised", repr(e))
buf.seek(0)
try:
    with py7zr.SevenZipFile(buf) as r:
        print(r.getnames())
        f = py7zr.io.BytesIOFactory(1<<20); r.extractall(factory=f)
        print({k: v._buffer.getvalue() for k,v in f.products.items()})
except Exception as e:
    print("reopen raised", repr(e))
