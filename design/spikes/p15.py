"""Probe C15: one inductive step of write bookkeeping with a fault injected at a symbolic point (CrossHair)."""
import io
from typing import Optional

import py7zr.archiveinfo as ai
import py7zr.py7zr as core


class Fault(Exception):
    pass


class StubCompressor:
    """codec-contract stub: compress(fd, fp) reads the source; may fail before/after reading"""

    def __init__(self, fail_at: int, size: int):
        self.fail_at, self.size = fail_at, size
        self.consumed = 0
        self.digest = 0
        self.packsize = 0
        self.unpacksizes = [0]

    def compress(self, fd, fp, crc=0):
        if self.fail_at == 1:
            raise Fault("read failed before any byte")
        self.consumed += self.size
        if self.fail_at == 2:
            raise Fault("read failed midway")
        return self.size, self.size, 12345

    def flush(self, fp):
        return 0


def mk(nold: int):
    z = object.__new__(core.SevenZipFile)
    z.fp = io.BytesIO()
    z.mode = "w"
    z.dereference = False
    z.files = core.ArchiveFileList()
    z.header = ai.Header.build_header([{"id": 0x33}], None)
    z.header.initialize()
    z.worker = core.Worker(z.files, 32, z.header, False)
    for i in range(nold):  # pre-state: nold members already written consistently
        fi = {"origin": None, "data": io.BytesIO(b"x"), "filename": "old%d" % i, "uncompressed": 1, "emptystream": False,
              "attributes": 0x20}
        z.header.files_info.files.append(fi)
        z.header.files_info.emptyfiles.append(False)
        z.files.append(fi)
        z.worker.current_file_index += 1
        z.worker.last_file_index = z.worker.current_file_index - 1
    return z


def state(z):
    return (len(z.files), len(z.header.files_info.files), len(z.header.files_info.emptyfiles), z.worker.current_file_index,
            z.header.main_streams.substreamsinfo.num_unpackstreams_folders[-1])


def chk_step(nold: int, fail_at: int, size: int, badname: bool) -> bool:
    """
    pre: 0 <= nold <= 2 and 0 <= fail_at <= 2 and 0 <= size < 2**40
    post: _
    """
    z = mk(nold)
    folder = z.header.main_streams.unpackinfo.folders[-1]
    folder.compressor = StubCompressor(fail_at, size)
    before = state(z)
    name = "../x" if badname else "new.txt"
    raised = False
    try:
        z.writef(io.BytesIO(b""), name)
    except (Fault, ValueError):
        raised = True
    after = state(z)
    inv = after[0] == after[1] == after[2] == after[3]
    if badname or fail_at == 1:
        return raised and after == before          # call rejected / source unreadable: archive unaffected
    if fail_at == 2:
        return raised and inv                      # mid-read: at least the bookkeeping stays in step
    return (not raised) and inv and after[0] == before[0] + 1


class _FakeTime:
    @staticmethod
    def time():
        return 1700000000.0


import py7zr.helpers as _helpers
_helpers._time = _FakeTime
