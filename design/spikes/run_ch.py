"""Tiny driver: run CrossHair via API on functions of a harness module (no prefer-pure-python import hook)."""
import importlib
import sys
import time

import py7zr  # noqa: F401  (import with C extensions BEFORE crosshair machinery)
from crosshair.core_and_libs import analyze_function, run_checkables
from crosshair.options import AnalysisKind, AnalysisOptionSet
from crosshair.options import DEFAULT_OPTIONS


def main():
    modname = sys.argv[1]
    timeout = float(sys.argv[2])
    names = sys.argv[3:]
    sys.path.insert(0, ".")
    mod = importlib.import_module(modname)
    opts = DEFAULT_OPTIONS.overlay(
        AnalysisOptionSet(
            analysis_kind=[AnalysisKind.PEP316],
            per_condition_timeout=timeout,
            per_path_timeout=timeout,
            report_all=True,
            max_uninteresting_iterations=10**9,
        )
    )
    for name in names or [n for n in dir(mod) if n.startswith("chk_")]:
        fn = getattr(mod, name)
        t0 = time.time()
        checkables = analyze_function(fn, opts)
        msgs = run_checkables(checkables)
        dt = time.time() - t0
        for m in msgs:
            print(f"{name}: {m.state.name} {dt:.1f}s :: {m.message[:300]}")
        if not msgs:
            print(f"{name}: NO MESSAGES {dt:.1f}s")


main()
