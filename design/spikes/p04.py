"""Probe C04.3: adversarial decoder + CRC-as-identity abstraction on real Worker.extract/_extract_single/_check/decompress."""
import io
import stat

import py7zr.archiveinfo as ai
import py7zr.py7zr as core
from p6 import build, run


class Chunk:
    def __init__(self, fid, off, n, bad):
        self.fid, self.off, self.n, self.bad = fid, off, n, bad

    def __len__(self):
        return self.n

    def decode(self, enc):  # symlink target text
        return "tgt"


def crc_stub(data, value=0, blocksize=0):
    """CRC abstraction: the value IS the (normalised) description of the bytes hashed so far."""
    if isinstance(data, (bytes, bytearray)):
        return value
    if value == 0:
        return ("D", data.fid, data.off, data.n, data.bad)
    tag, fid, off, n, bad = value
    contiguous = fid == data.fid and off + n == data.off
    return ("D", fid, off, n + data.n, bad or data.bad or not contiguous)


core.calculate_crc32 = crc_stub
core.get_memory_limit = lambda: 1 << 60


class AdvDecomp:
    crc = None

    def __init__(self, fid, damaged_from):
        self.fid, self.pos, self.damaged_from = fid, 0, damaged_from

    def decompress(self, fp, max_length=-1):
        c = Chunk(self.fid, self.pos, max_length, self.pos + max_length > self.damaged_from)
        self.pos += max_length
        return c


class FakeOut:
    """stands in for a pathlib output path (no filesystem)"""

    def __init__(self, name, log):
        self.name, self.log = name, log
        self.parent = self

    def mkdir(self, parents=False, exist_ok=False):
        pass

    def joinpath(self, x):
        return self

    def exists(self):
        return False

    def unlink(self):
        pass

    def symlink_to(self, target):
        self.log.append((self.name, "symlink", None))

    def touch(self):
        self.log.append((self.name, "touch", None))

    def open(self, mode="wb"):
        return self

    def __enter__(self):
        return self

    def __exit__(self, *a):
        pass

    def write(self, data):
        self.log.append((self.name, "data", data))
        return len(data)

    def seek(self, *a):
        return 0


class _BytesIOStub:
    """io.BytesIO replacement inside py7zr.py7zr for the symlink branch: collects chunks"""

    def __init__(self, *a):
        self.chunks = []

    def __enter__(self):
        return self

    def __exit__(self, *a):
        pass

    def write(self, d):
        self.chunks.append(d)
        return len(d)

    def seek(self, *a):
        return 0

    def read(self):
        return self.chunks[0] if self.chunks else Chunk(0, 0, 0, False)


class _IO:
    BytesIO = _BytesIOStub
    IOBase = io.IOBase
    BufferedIOBase = io.BufferedIOBase
    TextIOBase = io.TextIOBase


core.is_path_valid = lambda target, parent: True


def chk_damage(s0: int, s1: int, s2: int, dmg: int, k0: int, k1: int, k2: int, sel0: bool, sel1: bool, sel2: bool,
               testzip: bool) -> bool:
    """
    pre: 1 <= s0 < 2**30 and 1 <= s1 < 2**30 and 1 <= s2 < 2**30
    pre: 0 <= dmg <= s0 + s1 + s2
    pre: 0 <= k0 <= 1 and 0 <= k1 <= 1 and 0 <= k2 <= 1
    post: _
    """
    sizes = [s0, s1, s2]
    h = build([3], sizes, [0, 0, 0], [True, True, True], [False, False, False], [7])
    z = run(h)
    offs = [0, s0, s0 + s1]
    kinds = [k0, k1, k2]
    for i, fi in enumerate(h.files_info.files):
        fi["digest"] = ("D", 0, offs[i], sizes[i], False)       # CRC of the genuine bytes of member i
        if kinds[i] == 1:                                         # symlink member
            fi["attributes"] = 0x8000 | (stat.S_IFLNK << 16) | 0x20 | 0x400
        else:
            fi["attributes"] = 0x20
    h.main_streams.unpackinfo.folders[0].decompressor = AdvDecomp(0, dmg)   # bytes at offset >= dmg are damaged
    z.fp = io.BytesIO(bytes(64))
    w = core.Worker(z.files, 32, h, False)
    log = []
    sel = [True, True, True] if testzip else [sel0, sel1, sel2]
    for f, s_ in zip(z.files, sel):
        w.register_filelike(f.id, None if testzip or not s_ else FakeOut(f.filename, log))
    raised = False
    real_io = core.io
    core.io = _IO
    try:
        w.extract(z.fp, core.pathlib.Path("/jail"), parallel=False, skip_notarget=not testzip)
    except core.CrcError:
        raised = True
    finally:
        core.io = real_io
    if raised:
        return True
    # success: every delivered member must be undamaged
    ok = True
    for i, (f, s_) in enumerate(zip(z.files, sel)):
        delivered = (not testzip) and s_
        if delivered or testzip:
            damaged = offs[i] + sizes[i] > dmg
            ok = ok and not damaged
    return ok
