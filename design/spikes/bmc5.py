"""Spike F: lexical path kernels of py7zr.helpers interpreted from source over symbolic path components."""
import ast
import sys
import time

import z3

import bmc3
from bmc3 import Engine as Base, SObj, ModelRaise, Unsupported, ReturnEx, BreakEx, ContinueEx, PathEnd

NAMES = ["", ".", "..", "a", "b", "c:", "dafj08sajfa", "foo", "boo", "fuga", "hoge", "a90sufoiasj09"]
CODE = {n: i for i, n in enumerate(NAMES)}
CODE["/"] = 100
CODE["//"] = 101
ALPHA = 7  # symbolic components range over NAMES[0:7]


class C:
    """a path component / part: code is python int or z3 Int"""

    def __init__(self, code):
        self.code = code

    def __repr__(self):
        return "C(%s)" % self.code


def code_of(x):
    if isinstance(x, C):
        return x.code
    if isinstance(x, str):
        return CODE[x]
    raise Unsupported("code_of %r" % (x,))


class SName:
    """string '/'.join(comps) with comps possibly '' ; comps: list[C]"""

    def __init__(self, comps):
        self.comps = list(comps)

    # --- str methods used by helpers
    def startswith(self, eng, lit):
        if lit == "/":
            return len(self.comps) >= 2 and eng.branch(self.comps[0].code == CODE[""])
        if lit == "./":
            return len(self.comps) >= 2 and eng.branch(self.comps[0].code == CODE["."])
        raise Unsupported("startswith %r" % lit)

    def lstrip(self, eng, chars):
        assert chars == "/"
        comps = list(self.comps)
        while len(comps) >= 2 and eng.branch(comps[0].code == CODE[""]):
            comps = comps[1:]
        return SName(comps)

    def slice_from(self, k):
        assert k == 2  # path[len("./"):]
        return SName(self.comps[1:])


class SPath:
    def __init__(self, parts):
        self.parts = list(parts)  # list[C]; root part has code 100/101

    def has_root(self):
        return bool(self.parts) and not bmc3.is_sym(self.parts[0].code) and self.parts[0].code >= 100

    def is_absolute(self, eng):
        return self.has_root()

    def joinpath(self, eng, other):
        o = to_path(eng, other)
        if o.has_root():
            return o
        return SPath(self.parts + o.parts)

    def relative_to(self, eng, other):
        if len(other.parts) > len(self.parts):
            raise ModelRaise("ValueError")
        for a, b in zip(self.parts, other.parts):
            if not eng.branch(a.code == b.code):
                raise ModelRaise("ValueError")
        return SPath(self.parts[len(other.parts):])


def to_path(eng, x):
    """pathlib.PurePosixPath parsing of a string (SName) -> SPath"""
    if isinstance(x, SPath):
        return x
    comps = x.comps
    parts = []
    rest = comps
    if len(comps) >= 2 and eng.branch(comps[0].code == CODE[""]):
        # leading slash(es)
        if eng.branch(comps[1].code == CODE[""]) and not (len(comps) >= 3 and eng.branch(comps[2].code == CODE[""])) \
                and len(comps) >= 3:
            parts.append(C(CODE["//"]))
        else:
            parts.append(C(CODE["/"]))
    for c in rest:
        if eng.branch(c.code == CODE[""]) or eng.branch(c.code == CODE["."]):
            continue
        parts.append(c)
    return SPath(parts)


class Engine(Base):
    def __init__(self, paths, cwd):
        super().__init__(paths)
        self.cwd = cwd

    def stmt(self, s, env):
        if isinstance(s, ast.Try):
            try:
                self.block(s.body, env)
            except ModelRaise as ex:
                for h in s.handlers:
                    if h.type is None or (isinstance(h.type, ast.Name) and h.type.id == str(ex)):
                        self.block(h.body, env)
                        return
                raise
            return
        if isinstance(s, ast.Continue):
            raise ContinueEx()
        if isinstance(s, ast.AnnAssign):
            if s.value is not None:
                self.assign(s.target, self.expr(s.value, env), env)
            return
        if isinstance(s, ast.Raise):
            exc = s.exc
            name = exc.id if isinstance(exc, ast.Name) else exc.func.id
            raise ModelRaise(name)
        return super().stmt(s, env)

    def truth(self, v):
        if isinstance(v, bool) or z3.is_bool(v):
            return v
        return super().truth(v)

    def expr(self, e, env):
        if isinstance(e, ast.Constant) and isinstance(e.value, str):
            return e.value
        if isinstance(e, ast.Name) and e.id not in env and e.id == "RELATIVE_PATH_MARKER":
            import py7zr.helpers as _h
            return _h.RELATIVE_PATH_MARKER
        if isinstance(e, ast.JoinedStr):
            return "<fmt>"
        if isinstance(e, ast.List):
            return [self.expr(x, env) for x in e.elts]
        if isinstance(e, ast.BoolOp):
            # short-circuit with forking
            isand = isinstance(e.op, ast.And)
            for v in e.values:
                t = self.branch(self.truth(self.expr(v, env)))
                if isand and not t:
                    return False
                if (not isand) and t:
                    return True
            return isand
        if isinstance(e, ast.Compare) and len(e.ops) == 1:
            l, r = self.expr(e.left, env), self.expr(e.comparators[0], env)
            op = e.ops[0]
            if isinstance(op, (ast.Is, ast.IsNot)):
                res = l is r
                return res if isinstance(op, ast.Is) else not res
            if isinstance(l, C) or isinstance(r, C):
                eq = code_of(l) == code_of(r)
                if isinstance(op, ast.Eq):
                    return eq
                if isinstance(op, ast.NotEq):
                    return (not eq) if isinstance(eq, bool) else z3.Not(eq)
            if isinstance(l, str) and isinstance(r, str):
                return (l == r) if isinstance(op, ast.Eq) else (l != r)
        if isinstance(e, ast.Attribute):
            if isinstance(e.value, ast.Name) and e.value.id == "sys" and e.attr == "platform":
                return "linux"
            obj = self.expr(e.value, env) if not (isinstance(e.value, ast.Name) and e.value.id in ("pathlib", "sys")) else None
            if isinstance(obj, SPath) and e.attr == "parts":
                return list(obj.parts)
            if obj is None:
                raise Unsupported("module attr")
            return super().expr(e, env)
        if isinstance(e, ast.Subscript) and isinstance(self.expr(e.value, env), SName):
            name = self.expr(e.value, env)
            assert isinstance(e.slice, ast.Slice) and e.slice.upper is None
            return name.slice_from(self.expr(e.slice.lower, env))
        if isinstance(e, ast.Subscript) and isinstance(self.expr(e.value, env), list):
            return self.expr(e.value, env)[self.expr(e.slice, env)]
        if isinstance(e, ast.UnaryOp) and isinstance(e.op, ast.USub) and isinstance(e.operand, ast.Constant):
            return -e.operand.value
        if isinstance(e, ast.UnaryOp) and isinstance(e.op, ast.Not):
            v = self.truth(self.expr(e.operand, env))
            return (not v) if isinstance(v, bool) else z3.Not(v)
        if isinstance(e, ast.Call):
            f = e.func
            # pathlib.Path(...), pathlib.Path.cwd()
            if isinstance(f, ast.Attribute) and isinstance(f.value, ast.Name) and f.value.id == "pathlib" and f.attr == "Path":
                if e.args and isinstance(e.args[0], ast.Starred):
                    parts = self.expr(e.args[0].value, env)
                    return SPath(parts)
                (a,) = [self.expr(x, env) for x in e.args]
                if isinstance(a, str):
                    return to_path(self, SName([C(CODE[c]) for c in a.split("/")]))
                return to_path(self, a)
            if isinstance(f, ast.Attribute) and isinstance(f.value, ast.Attribute) and f.attr == "cwd":
                return self.cwd
            if isinstance(f, ast.Name) and f.id in self.funcs:
                args = []
                for a in e.args:
                    if isinstance(a, ast.Starred):
                        args.extend(self.expr(a.value, env))
                    else:
                        args.append(self.expr(a, env))
                return self.call(f.id, args)
            if isinstance(f, ast.Name) and f.id == "len":
                (a,) = [self.expr(x, env) for x in e.args]
                if isinstance(a, (list, str)):
                    return len(a)
            if isinstance(f, ast.Attribute):
                obj = self.expr(f.value, env)
                args = [self.expr(a, env) for a in e.args]
                if isinstance(obj, list):
                    if f.attr == "append":
                        obj.append(args[0]); return None
                    if f.attr == "pop":
                        return obj.pop()
                if isinstance(obj, (SName, SPath)):
                    return getattr(obj, f.attr)(self, *args)
        return super().expr(e, env)

    def call(self, name, args):
        fn = self.funcs[name]
        params = [a.arg for a in fn.args.args]
        env = dict(zip(params, args))
        if fn.args.vararg:
            env[fn.args.vararg.arg] = list(args[len(params):])
        try:
            self.block(fn.body, env)
        except ReturnEx as r:
            return r.value
        return None

    def binop(self, op, a, b):
        if isinstance(a, str) and isinstance(b, str) and isinstance(op, ast.Add):
            return a + b
        return super().binop(op, a, b)


def spec_check_archive_path(eng, comps):
    """independent definition: reject iff absolute or depth goes negative (lexical '..' resolution)"""
    if len(comps) >= 2 and eng.branch(comps[0].code == CODE[""]):
        return False
    depth = 0
    for c in comps:
        if eng.branch(c.code == CODE[""]) or eng.branch(c.code == CODE["."]):
            continue
        if eng.branch(c.code == CODE[".."]):
            depth -= 1
            if depth < 0:
                return False
        else:
            depth += 1
    return True


def main(nmax):
    t0 = time.time()
    tot_paths = tot_q = 0
    mism = []
    for n in range(1, nmax + 1):
        eng = Engine(["/repo/py7zr/helpers.py"], SPath([C(100), C(CODE["foo"])]))
        cs = [z3.Int("c%d" % i) for i in range(n)]

        def harness(e):
            for c in cs:
                e.pc += [c >= 0, c < ALPHA]
            name = SName([C(c) for c in cs])
            try:
                got = e.call("check_archive_path", [name])
            except ModelRaise as ex:
                got = "raise:" + str(ex)
            want = spec_check_archive_path(e, [C(c) for c in cs])
            return got, want

        res = eng.explore(harness)
        tot_paths += len(res)
        tot_q += eng.queries
        for dec, pc, (got, want) in res:
            if got != want:
                eng.pc = pc
                r, m = eng.check()
                wit = "/".join(NAMES[m.eval(c, model_completion=True).as_long()] for c in cs)
                mism.append((wit, got, want))
    print("n<=%d paths %d queries %d wall %.1fs mismatches %d" % (nmax, tot_paths, tot_q, time.time() - t0, len(mism)))
    for w in mism[:8]:
        print("  name=%r py7zr=%s spec=%s" % w)


if __name__ == "__main__":
    main(int(sys.argv[1]))
