import io, os, py7zr, pathlib, shutil
base = pathlib.Path("/tmp/probe/work03")
shutil.rmtree(base, ignore_errors=True); base.mkdir()
src = base / "src"; src.mkdir()
os.symlink(".", src / "l1")      # will be stored as member "a"   -> "."
os.symlink("..", src / "l2")     # will be stored as member "a/b" -> ".."
buf = io.BytesIO()
with py7zr.SevenZipFile(buf, "w") as z:
    z.write(src / "l1", arcname="a")
    z.write(src / "l2", arcname="a/b")
    z.writestr(b"pwned", "a/b/escaped.txt")
outer = base / "outer"; jail = outer / "jail"; jail.mkdir(parents=True)
before = sorted(p.name for p in outer.iterdir())
buf.seek(0)
try:
    with py7zr.SevenZipFile(buf) as z:
        print(z.getnames())
        z.extractall(jail)
    print("extract returned normally")
except Exception as e:
    print("raised", repr(e))
print("outer before:", before, "after:", sorted(p.name for p in outer.iterdir()))
print("jail:", sorted(str(p.relative_to(jail)) for p in jail.rglob("*"))[:10])
