"""Prototype: path-forking symbolic interpreter over the real AST of py7zr leaf functions, BV-encoded ints."""
import ast
import sys
import time

import z3

W = 80  # bit width for ints; overflow is guarded by interval tracking in the real engine (prototype: trust)


class Unsupported(Exception):
    pass


class PathEnd(Exception):
    pass


class SBytes:
    def __init__(self, items):
        self.items = list(items)

    def __len__(self):
        return len(self.items)


class SObj:
    def __init__(self, cls):
        self.cls, self.attrs = cls, {}


class CrcVal:
    def __init__(self, items):
        self.items = list(items)


H = z3.Function("H", z3.BitVecSort(160), z3.BitVecSort(32))


class SFile:
    def __init__(self, items=()):
        self.items = list(items)
        self.pos = 0


def bv(x):
    return x if z3.is_bv(x) else z3.BitVecVal(x, W)


def is_sym(x):
    return z3.is_expr(x)


class Engine:
    def __init__(self, path):
        self.tree = ast.parse(open(path).read())
        self.funcs = {n.name: n for n in self.tree.body if isinstance(n, ast.FunctionDef)}
        self.classes = {n.name: {m.name: m for m in n.body if isinstance(m, ast.FunctionDef)} for n in self.tree.body if isinstance(n, ast.ClassDef)}
        self.consts = {}
        self.axioms = []
        self.solver = z3.Solver()
        self.queries = 0
        self.solver_time = 0.0

    # --- path exploration
    def explore(self, harness):
        """harness(engine) runs one path; returns list of (decisions, result)"""
        self.results = []
        todo = [[]]
        while todo:
            prefix = todo.pop()
            self.decisions = list(prefix)
            self.cursor = 0
            self.pc = []
            self.new_alts = []
            try:
                res = harness(self)
                self.results.append((list(self.decisions), list(self.pc), res))
            except PathEnd:
                pass
            todo.extend(self.new_alts)
        return self.results

    def check(self, *extra):
        t = time.time()
        self.solver.push()
        self.solver.add(*self.pc, *self.axioms, *extra)
        r = self.solver.check()
        m = self.solver.model() if r == z3.sat else None
        self.solver.pop()
        self.queries += 1
        self.solver_time += time.time() - t
        return r, m

    def branch(self, cond):
        if isinstance(cond, bool):
            return cond
        if not z3.is_bool(cond):
            raise Unsupported("branch on %r" % cond)
        cond = z3.simplify(cond)
        if z3.is_true(cond):
            return True
        if z3.is_false(cond):
            return False
        if self.cursor < len(self.decisions):
            d = self.decisions[self.cursor]
            self.cursor += 1
            self.pc.append(cond if d else z3.Not(cond))
            return d
        rt, _ = self.check(cond)
        rf, _ = self.check(z3.Not(cond))
        if rt == z3.unknown or rf == z3.unknown:
            raise Unsupported("solver unknown")
        if rt == z3.sat and rf == z3.sat:
            self.new_alts.append(self.decisions + [False])
            d = True
        elif rt == z3.sat:
            d = True
        elif rf == z3.sat:
            d = False
        else:
            raise PathEnd()
        self.decisions.append(d)
        self.cursor += 1
        self.pc.append(cond if d else z3.Not(cond))
        return d

    # --- interpreter
    def call(self, name, args):
        fn = self.funcs[name]
        env = {a.arg: v for a, v in zip(fn.args.args, args)}
        try:
            self.block(fn.body, env)
        except ReturnEx as r:
            return r.value
        return None

    def call_method(self, obj, name, args):
        fn = self.classes[obj.cls][name]
        env = {a.arg: v for a, v in zip(fn.args.args, [obj] + list(args))}
        try:
            self.block(fn.body, env)
        except ReturnEx as r:
            return r.value
        return None

    def block(self, stmts, env):
        for s in stmts:
            self.stmt(s, env)

    def stmt(self, s, env):
        if isinstance(s, ast.Expr):
            if isinstance(s.value, ast.Constant):
                return
            self.expr(s.value, env)
        elif isinstance(s, ast.Assign):
            v = self.expr(s.value, env)
            for t in s.targets:
                self.assign(t, v, env)
        elif isinstance(s, ast.AugAssign):
            cur = self.expr(s.target, env)
            v = self.binop(s.op, cur, self.expr(s.value, env))
            self.assign(s.target, v, env)
        elif isinstance(s, ast.Return):
            raise ReturnEx(self.expr(s.value, env) if s.value else None)
        elif isinstance(s, ast.If):
            if self.branch(self.truth(self.expr(s.test, env))):
                self.block(s.body, env)
            else:
                self.block(s.orelse, env)
        elif isinstance(s, ast.For):
            it = self.expr(s.iter, env)
            try:
                for item in it:
                    self.assign(s.target, item, env)
                    try:
                        self.block(s.body, env)
                    except ContinueEx:
                        pass
            except BreakEx:
                pass
        elif isinstance(s, ast.Break):
            raise BreakEx()
        elif isinstance(s, ast.Assert):
            if not self.branch(self.truth(self.expr(s.test, env))):
                raise ModelRaise("AssertionError")
        elif isinstance(s, ast.Raise):
            raise ModelRaise(s.exc.func.id if isinstance(s.exc, ast.Call) else s.exc.id)
        elif isinstance(s, ast.Continue):
            raise ContinueEx()
        else:
            raise Unsupported(ast.dump(s)[:80])

    def assign(self, t, v, env):
        if isinstance(t, ast.Name):
            env[t.id] = v
        elif isinstance(t, ast.Tuple):
            for tt, vv in zip(t.elts, v):
                self.assign(tt, vv, env)
        elif isinstance(t, ast.Attribute):
            self.expr(t.value, env).attrs[t.attr] = v
        elif isinstance(t, ast.Subscript):
            obj = self.expr(t.value, env)
            idx = self.expr(t.slice, env)
            obj.items[idx] = v
        else:
            raise Unsupported("assign target")

    def truth(self, v):
        if z3.is_bool(v):
            return v
        if z3.is_bv(v):
            return v != 0
        if isinstance(v, SBytes):
            return len(v) > 0
        return bool(v)

    def binop(self, op, a, b):
        if not is_sym(a) and not is_sym(b):
            import operator as o
            table = {ast.Add: o.add, ast.Sub: o.sub, ast.Mult: o.mul, ast.FloorDiv: o.floordiv, ast.LShift: o.lshift,
                     ast.RShift: o.rshift, ast.BitOr: o.or_, ast.BitAnd: o.and_, ast.Mod: o.mod}
            if isinstance(a, SBytes) and isinstance(b, SBytes) and isinstance(op, ast.Add):
                return SBytes(a.items + b.items)
            return table[type(op)](a, b)
        a, b = bv(a), bv(b)
        if isinstance(op, ast.Add):
            return a + b
        if isinstance(op, ast.Sub):
            return a - b
        if isinstance(op, ast.BitOr):
            return a | b
        if isinstance(op, ast.BitAnd):
            return a & b
        if isinstance(op, ast.LShift):
            return a << b
        if isinstance(op, ast.RShift):
            return a >> b  # arithmetic shift == python semantics on non-overflowing ints
        raise Unsupported("binop %s" % op)

    def compare(self, op, a, b):
        if isinstance(a, CrcVal):
            a = self.crc_term(a)
        if isinstance(b, CrcVal):
            b = self.crc_term(b)
        return self._compare(op, a, b)

    def _compare(self, op, a, b):
        if not is_sym(a) and not is_sym(b):
            import operator as o
            if isinstance(a, SBytes):
                a = bytes(a.items)
            if isinstance(b, SBytes):
                b = bytes(b.items)
            table = {ast.Lt: o.lt, ast.LtE: o.le, ast.Gt: o.gt, ast.GtE: o.ge, ast.Eq: o.eq, ast.NotEq: o.ne}
            return table[type(op)](a, b)
        a, b = bv(a), bv(b)
        if isinstance(op, ast.Lt):
            return a < b
        if isinstance(op, ast.LtE):
            return a <= b
        if isinstance(op, ast.Gt):
            return a > b
        if isinstance(op, ast.GtE):
            return a >= b
        if isinstance(op, ast.Eq):
            return a == b
        if isinstance(op, ast.NotEq):
            return a != b
        raise Unsupported("cmp")

    def expr(self, e, env):
        if isinstance(e, ast.Constant):
            if isinstance(e.value, bytes):
                return SBytes(e.value)
            return e.value
        if isinstance(e, ast.Attribute):
            if isinstance(e.value, ast.Name) and e.value.id == "io":
                raise Unsupported("io attr")
            obj = self.expr(e.value, env)
            return obj.attrs[e.attr]
        if isinstance(e, ast.Name):
            if e.id in env:
                return env[e.id]
            if e.id in self.consts:
                return self.consts[e.id]
            raise Unsupported("name " + e.id)
        if isinstance(e, ast.BinOp):
            return self.binop(e.op, self.expr(e.left, env), self.expr(e.right, env))
        if isinstance(e, ast.UnaryOp) and isinstance(e.op, ast.USub):
            v = self.expr(e.operand, env)
            return -v
        if isinstance(e, ast.Compare):
            left = self.expr(e.left, env)
            res = None
            for op, c in zip(e.ops, e.comparators):
                right = self.expr(c, env)
                r = self.compare(op, left, right)
                res = r if res is None else (z3.And(res, r) if is_sym(res) or is_sym(r) else (res and r))
                left = right
            return res
        if isinstance(e, ast.Tuple):
            return tuple(self.expr(x, env) for x in e.elts)
        if isinstance(e, ast.List):
            return [self.expr(x, env) for x in e.elts]
        if isinstance(e, ast.Subscript):
            obj = self.expr(e.value, env)
            if isinstance(e.slice, ast.Slice):
                lo = self.expr(e.slice.lower, env) if e.slice.lower else None
                hi = self.expr(e.slice.upper, env) if e.slice.upper else None
                if isinstance(obj, SBytes):
                    return SBytes(obj.items[lo:hi])
                return obj[lo:hi]
            idx = self.expr(e.slice, env)
            if isinstance(obj, SBytes):
                return obj.items[idx]
            return obj[idx]
        if isinstance(e, ast.Call):
            return self.callexpr(e, env)
        raise Unsupported(ast.dump(e)[:80])

    def callexpr(self, e, env):
        args = [self.expr(a, env) for a in e.args]
        kw = {k.arg: self.expr(k.value, env) for k in e.keywords}
        f = e.func
        if isinstance(f, ast.Name):
            n = f.id
            if n in self.funcs:
                return self.call(n, args)
            if n == "calculate_crc32":
                data = args[0]
                prev = args[1] if len(args) > 1 else None
                return CrcVal((prev.items if prev is not None else []) + list(data.items))
            if n == "pack":
                fmt, v = args
                size = {"B": 1, "<L": 4, "<Q": 8}[fmt]
                return self.to_bytes(v, size)
            if n == "unpack":
                fmt, b = args
                size = {"B": 1, "<L": 4, "<Q": 8}[fmt]
                if len(b) != size:
                    raise ModelRaise("struct.error")
                return (self.from_bytes(b),)
            if n == "ord":
                (b,) = args
                if len(b) != 1:
                    raise ModelRaise("TypeError ord")
                return b.items[0]
            if n == "bytearray":
                return SBytes(args[0].items)
            if n == "int":
                return args[0]
            if n == "range":
                return range(*args)
            if n == "len":
                return len(args[0])
            raise Unsupported("call " + n)
        if isinstance(f, ast.Attribute):
            if isinstance(f.value, ast.Name) and f.value.id == "int" and f.attr == "from_bytes":
                return self.from_bytes(args[0])
            if isinstance(f.value, ast.Name) and f.value.id == "io" and f.attr == "BytesIO":
                return SFile()
            obj = self.expr(f.value, env)
            if isinstance(obj, SObj):
                return self.call_method(obj, f.attr, args)
            if isinstance(obj, SFile) and f.attr == "seek":
                obj.pos = args[0]; return obj.pos
            if isinstance(obj, SFile) and f.attr == "getvalue":
                return SBytes(obj.items)
            if isinstance(obj, SFile):
                if f.attr == "write":
                    for x in args[0].items:
                        if obj.pos < len(obj.items):
                            obj.items[obj.pos] = x
                        else:
                            obj.items.append(x)
                        obj.pos += 1
                    return len(args[0])
                if f.attr == "read":
                    n = args[0]
                    r = obj.items[obj.pos : obj.pos + n]
                    obj.pos += len(r)
                    return SBytes(r)
            if f.attr == "to_bytes":
                return self.to_bytes(obj, args[0])
            if f.attr == "bit_length":
                if not is_sym(obj):
                    return obj.bit_length()
                for k in range(0, W):
                    if self.branch(z3.ULT(obj, z3.BitVecVal(1 << k, W))):
                        return k
                raise Unsupported("bit_length")
            raise Unsupported("method " + f.attr)
        raise Unsupported("call")

    def crc_term(self, c):
        assert len(c.items) == 20
        arg = z3.Concat(*[z3.Extract(7, 0, bv(x)) for x in reversed(c.items)])
        return z3.ZeroExt(W - 32, H(arg))

    def to_bytes(self, v, size):
        if isinstance(v, CrcVal):
            v = self.crc_term(v)
        if not is_sym(v):
            return SBytes(v.to_bytes(size, "little"))
        # python raises OverflowError when v doesn't fit: fork on it
        if size * 8 < W and self.branch(z3.Or(v < 0, v >= z3.BitVecVal(1 << (8 * size), W))):
            raise ModelRaise("OverflowError")
        return SBytes([z3.ZeroExt(W - 8, z3.Extract(8 * i + 7, 8 * i, v)) for i in range(size)])

    def from_bytes(self, b):
        acc = 0
        for i, x in enumerate(b.items):
            acc = self.binop(ast.BitOr(), acc, self.binop(ast.LShift(), x, 8 * i)) if True else acc
        return acc


class ReturnEx(Exception):
    def __init__(self, value):
        self.value = value


class BreakEx(Exception):
    pass


class ContinueEx(Exception):
    pass


class ModelRaise(Exception):
    pass



import zlib, struct

def main():
    eng = Engine("/repo/py7zr/archiveinfo.py")
    eng.consts["MAGIC_7Z"] = SBytes(b"7z\xbc\xaf\x27\x1c")
    eng.consts["P7ZIP_MAJOR_VERSION"] = SBytes(b"\x00"); eng.consts["P7ZIP_MINOR_VERSION"] = SBytes(b"\x04")
    no, so = z3.BitVec("ofs_new", W), z3.BitVec("size_new", W)
    hn = z3.BitVec("hcrc_new", W)
    oo, osz, oh = z3.BitVec("ofs_old", W), z3.BitVec("size_old", W), z3.BitVec("hcrc_old", W)
    rng = [z3.ULT(x, z3.BitVecVal(1 << 64, W)) for x in (no, so, oo, osz)] + [z3.ULT(x, z3.BitVecVal(1 << 32, W)) for x in (hn, oh)] + [so != 0, osz != 0]

    def written(e, ofs, size, hcrc, skeleton=False):
        o = SObj("SignatureHeader")
        o.attrs.update(version=(SBytes(b"\x00"), SBytes(b"\x04")), startheadercrc=-1, nextheaderofs=ofs, nextheadersize=-1, nextheadercrc=-1)
        f = SFile()
        if skeleton:
            e.call_method(o, "_write_skeleton", [f])
        else:
            e.call_method(o, "calccrc", [size, hcrc])
            e.call_method(o, "write", [f])
        return f.items

    total_paths = total_q = 0
    bad = 0
    t0 = time.time()
    for mode in ("create", "append"):
        for p in range(0, 33):
            def harness(e):
                e.pc += rng
                new = written(e, no, so, hn)
                old = written(e, None, None, None, skeleton=True) if mode == "create" else written(e, oo, osz, oh)
                assert len(new) == 32 and len(old) == 32
                img = new[:p] + old[p:]
                # no CRC collision among the byte strings in play (stated assumption)
                def arg(items): return z3.Concat(*[z3.Extract(7, 0, bv(x)) for x in reversed(items)])
                a_img, a_new, a_old = arg(img[12:32]), arg(new[12:32]), arg(old[12:32])
                e.axioms[:] = [z3.Implies(H(a_img) == H(a_new), a_img == a_new), z3.Implies(H(a_img) == H(a_old), a_img == a_old)]
                if mode == "create":
                    real = zlib.crc32(bytes(old[12:32]))
                    e.axioms.append(H(a_old) == z3.BitVecVal(real, 32))
                r = SObj("SignatureHeader"); r.attrs.update(version=None)
                try:
                    e.call_method(r, "_read", [SFile(img)])
                except ModelRaise as ex:
                    return ("rejected", str(ex))
                same_new = z3.And(*[bv(a) == bv(b) for a, b in zip(img, new)])
                same_old = z3.And(*[bv(a) == bv(b) for a, b in zip(img, old)])
                return ("accepted", same_new, same_old)
            res = eng.explore(harness)
            total_paths += len(res)
            for dec, pc, r in res:
                if r[0] != "accepted":
                    continue
                eng.pc = pc
                allowed = r[1] if mode == "create" else z3.Or(r[1], r[2])
                v, m = eng.check(z3.Not(allowed))
                if v != z3.unsat:
                    bad += 1
                    print("CEX", mode, "prefix", p, v)
    print("modes create+append, prefixes 0..32: paths", total_paths, "queries", eng.queries, "solver_s %.2f" % eng.solver_time, "wall %.1f" % (time.time() - t0), "bad", bad)

main()
