"""Probe C02(a): _make_file_info -> ArchiveFile kind/mode decoding on a stub path with symbolic st_mode (CrossHair)."""
import types, sys, os
import stat as _cstat
import py7zr.py7zr as core
import py7zr.helpers as helpers

# pure-Python stat module (Lib/stat.py without the C accelerator) so that symbolic modes are not realised
_src = open(os.path.join(os.path.dirname(os.__file__), "stat.py")).read().split("# If available, use C implementation")[0]
pystat = types.ModuleType("pystat")
exec(compile(_src, "stat.py", "exec"), pystat.__dict__)
core.stat = pystat

class _FakeTime:
    @staticmethod
    def time():
        return 1700000000.0
helpers._time = _FakeTime


class St:
    def __init__(self, mode):
        self.st_mode, self.st_size = mode, 3
        self.st_ctime = self.st_mtime = self.st_atime = 1700000000


class FakePath:
    def __init__(self, lmode, tmode):
        self.lmode, self.tmode = lmode, tmode

    def as_posix(self):
        return "x"

    def lstat(self):
        return St(self.lmode)

    def stat(self):
        return St(self.tmode)

    def is_symlink(self):
        return pystat.S_ISLNK(self.lmode)

    def is_dir(self):
        return pystat.S_ISDIR(self.tmode)   # pathlib follows links

    def is_file(self):
        return pystat.S_ISREG(self.tmode)


def chk_attr(kind: int, tkind: int, perm: int, tperm: int, deref: bool) -> bool:
    """
    pre: 0 <= kind <= 2 and 0 <= tkind <= 1
    pre: 0 <= perm < 4096 and 0 <= tperm < 4096
    post: _
    """
    fmt = [pystat.S_IFREG, pystat.S_IFDIR, pystat.S_IFLNK][kind]
    tfmt = [pystat.S_IFREG, pystat.S_IFDIR][tkind]
    lmode = fmt | perm
    tmode = (tfmt | tperm) if kind == 2 else lmode
    info = core.SevenZipFile._make_file_info(FakePath(lmode, tmode), "x", deref)
    f = core.ArchiveFile(0, info)
    if kind == 2 and not deref:
        return f.is_symlink and not f.is_directory and f.posix_mode == perm and info["emptystream"] is False
    eff_kind, eff_perm = (tkind, tperm) if kind == 2 else (kind, perm)
    if eff_kind == 1:
        return f.is_directory and not f.is_symlink and f.posix_mode == eff_perm and info["emptystream"] is True
    return (not f.is_directory) and (not f.is_symlink) and f.posix_mode == eff_perm and info["emptystream"] is False
