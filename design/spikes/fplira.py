import z3, time, math
s = z3.Solver()
cnt = [0]
def R(x, lo, hi):
    """round-to-nearest double of real term x known to lie in [lo,hi] (lo>0): ties nondeterministic."""
    cnt[0] += 1
    r = z3.Real("r%d" % cnt[0]); m = z3.Int("m%d" % cnt[0])
    e0, e1 = math.floor(math.log2(lo)) - 1, math.floor(math.log2(hi)) + 1
    cases = []
    for e in range(e0, e1 + 1):
        ulp = z3.RealVal(2) ** (e - 52)
        cases.append(z3.And(r == z3.ToReal(m) * ulp, r - x <= ulp / 2, x - r <= ulp / 2,
                            z3.RealVal(2) ** e <= r, r <= z3.RealVal(2) ** (e + 1)))
    s.add(z3.Or(*cases))
    return r
v0 = z3.Real("v")      # v itself is a double: model via R of an arbitrary real in range
s.add(v0 >= 1, v0 <= 4102444800)
v = R(v0, 1, 4102444800)
ADJ, K = 11644473600, 10000000
a = R(v + ADJ, ADJ, ADJ + 4102444800 + 1)
t = R(a * K, ADJ * K, (ADJ + 4102444801) * K)
n = z3.Int("n"); s.add(z3.ToReal(n) <= t, t < z3.ToReal(n) + 1)          # int(): trunc, t>0
nf = R(z3.ToReal(n), ADJ * K - 1, (ADJ + 4102444801) * K)
q = R(nf / K, ADJ - 1, ADJ + 4102444802)
back = q - ADJ   # checked separately: exact? model with R too
back = R(back, 0.5, 4102444900)
err = back - v
bound = z3.RealVal("0.000005")
s.push(); s.add(z3.Or(err > bound, err < -bound))
t0 = time.time(); print("neg:", s.check(), "%.2fs" % (time.time() - t0)); s.pop()
t0 = time.time(); print("reach:", s.check(), "%.2fs" % (time.time() - t0))
# tightness: what about 3 microseconds?
s.push(); b3 = z3.RealVal("0.000003"); s.add(z3.Or(err > b3, err < -b3)); print("3us:", s.check()); s.pop()
