from bmc3 import *

def main():
    eng = Engine(["/repo/py7zr/compressor.py", "/repo/py7zr/io.py"])
    eng.natives["calculate_crc32"] = lambda e, data, value=0: 0
    U, IN, BS, C0, P0, bl, p0, m = z3.Ints("U IN BS C0 P0 bl p0 m")

    def harness(e):
        e.pc += [U >= 0, IN >= 0, BS >= 1, 0 <= C0, C0 <= IN, 0 <= P0, P0 <= U, bl >= 0, 0 <= p0, p0 <= bl, m >= 1, P0 - bl >= 0]
        d = SObj("SevenZipDecompressor")
        dec = StubDecoder(e, "dec", True, U)
        dec.produced = P0
        fp = StubFp()
        d.attrs.update(input_size=IN, consumed=C0, block_size=BS, chain=[dec], _unpacksizes=[U], _unpacked=[P0],
                       _unused=Rope(), _buf=Rope([("D", P0 - bl, bl)]), _pos=p0, digest=0, crc=None)
        try:
            out = e.call_method(d, "decompress", [fp, m])
        except ModelRaise as ex:
            return ("raise", str(ex))
        return ("ok", out.length(), d.attrs["consumed"], dec.produced, d.attrs["_buf"].length() - d.attrs["_pos"])

    results = eng.explore(harness)
    lassos = 0
    for dec_, pc, res in results:
        eng.pc = pc
        if res[0] == "raise":
            continue
        _, outlen, consumed, produced, held = res
        # progress measure: delivered bytes, or input consumed, or decoder advanced
        r, mdl = eng.check(z3.And(outlen == 0, consumed == C0, produced == P0, held == bl - p0))
        if r == z3.sat:
            lassos += 1
            if lassos <= 3:
                print("NO-PROGRESS state:", {str(k): mdl[k] for k in (U, IN, C0, P0, bl, p0, m)})
    print("paths", len(results), "no-progress paths", lassos, "queries", eng.queries)
main()
