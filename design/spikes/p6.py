"""Probe 6: _real_get_contents mapping over a symbolic header object graph (C06/C10 kernel) under CrossHair."""
import io
from typing import List, Optional

import py7zr.archiveinfo as ai
import py7zr.py7zr as core


def build(nfold_streams, sizes, crcs, crcdef, empties, packsizes):
    """Build a Header object graph the way Header._read would leave it."""
    h = ai.Header()
    h.main_streams = ai.StreamsInfo()
    pi = ai.PackInfo()
    pi.packpos = 0
    pi.numstreams = len(packsizes)
    pi.packsizes = list(packsizes)
    pi.packpositions = [sum(pi.packsizes[:i]) for i in range(pi.numstreams + 1)]
    h.main_streams.packinfo = pi
    ui = ai.UnpackInfo()
    ui.numfolders = len(nfold_streams)
    k = 0
    for n in nfold_streams:
        f = ai.Folder()
        f.coders = [{"method": b"\x00", "numinstreams": 1, "numoutstreams": 1, "properties": None}]
        f.unpacksizes = [sum(sizes[k : k + n])]
        k += n
        ui.folders.append(f)
    h.main_streams.unpackinfo = ui
    si = ai.SubstreamsInfo()
    si.num_unpackstreams_folders = list(nfold_streams)
    si.unpacksizes = list(sizes)
    si.digests = list(crcs)
    si.digestsdefined = list(crcdef)
    h.main_streams.substreamsinfo = si
    fi = ai.FilesInfo()
    fi.files = [{"emptystream": e, "filename": "f%d" % i} for i, e in enumerate(empties)]
    h.files_info = fi
    return h


class FakeSig:
    nextheaderofs = 0
    nextheadersize = 0
    nextheadercrc = 0


def run(h):
    z = object.__new__(core.SevenZipFile)
    z.fp = io.BytesIO(b"7z\xbc\xaf\x27\x1c" + bytes(26))
    z.filename = None
    z.password_protected = False
    orig = (ai.SignatureHeader.retrieve, ai.Header.retrieve, core.calculate_crc32)
    core.SignatureHeader.retrieve = classmethod(lambda cls, fp: (fp.seek(32), FakeSig())[1])
    core.Header.retrieve = classmethod(lambda cls, fp, buf, start, pw=None: h)
    core.calculate_crc32 = lambda data, value=0, blocksize=0: 0
    try:
        z._real_get_contents(None)
    finally:
        core.SignatureHeader.retrieve, core.Header.retrieve, core.calculate_crc32 = orig
    return z


def chk_map(s0: int, s1: int, s2: int, c0: int, c1: int, c2: int, d0: bool, d1: bool, d2: bool,
            e0: bool, e1: bool, e2: bool, e3: bool, e4: bool, split: int) -> bool:
    """
    pre: 0 <= s0 < 2**40 and 0 <= s1 < 2**40 and 0 <= s2 < 2**40
    pre: 0 <= c0 < 2**32 and 0 <= c1 < 2**32 and 0 <= c2 < 2**32
    pre: 0 <= split <= 3
    pre: [e0, e1, e2, e3, e4].count(False) == 3
    post: _
    """
    nf = [n for n in (split, 3 - split) if n > 0]
    sizes = [s0, s1, s2]
    h = build(nf, sizes, [c0, c1, c2], [d0, d1, d2], [e0, e1, e2, e3, e4], [7] * len(nf))
    z = run(h)
    k = 0
    ok = len(z.files) == 5
    for i, f in enumerate(z.files):
        if [e0, e1, e2, e3, e4][i]:
            ok = ok and f.uncompressed == 0 and f.folder is None
        else:
            ok = ok and f.uncompressed == sizes[k]
            ok = ok and (f.crc32 == [c0, c1, c2][k] if [d0, d1, d2][k] else f.crc32 is None)
            fidx = 0 if k < split else (1 if split > 0 else 0)
            ok = ok and f.folder is h.main_streams.unpackinfo.folders[fidx]
            k += 1
    return ok
