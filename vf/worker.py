"""Run one obligation in this process: python -m vf.worker <module> <func> <json-kwargs> <out.json> <name>"""
import importlib
import json
import sys
import time
import traceback
from dataclasses import asdict

from vf.common import ERROR, INCONCLUSIVE, ObResult, jsonable


def main():
    module, func, kwargs, out, name = sys.argv[1:6]
    t0 = time.time()
    try:
        mod = importlib.import_module(module)
        r = getattr(mod, func)(**json.loads(kwargs))
        if not isinstance(r, ObResult):
            raise TypeError("obligation returned %r" % type(r))
    except BaseException as e:  # noqa  (CrossHair control-flow exceptions are BaseException)
        from vf.pysym.engine import Inconclusive

        r = ObResult(verdict=INCONCLUSIVE if isinstance(e, Inconclusive) else ERROR)
        r.note = "%s: %s\n%s" % (type(e).__name__, e, traceback.format_exc()[-1200:])
    r.name = name
    r.wall_s = round(time.time() - t0, 2)
    with open(out, "w") as f:
        json.dump(jsonable(asdict(r)), f)


main()
