"""Replay a counterexample against the real, unstubbed code: python -m vf.replay <replay.json>
Prints REPRODUCED / NOT-REPRODUCED and exits 0 / 3."""
import importlib
import json
import sys


def replay_file(path):
    spec = json.load(open(path))
    rp = spec["replay"]
    mod = importlib.import_module(rp["module"])
    return getattr(mod, rp["func"])(**rp["kwargs"])


def main():
    res = replay_file(sys.argv[1])
    ok, detail = (res if isinstance(res, tuple) else (bool(res), ""))
    print(("REPRODUCED " if ok else "NOT-REPRODUCED ") + str(detail)[:2000])
    sys.exit(0 if ok else 3)


if __name__ == "__main__":
    main()
