"""C19 – the command line: option parsing and exit-status mapping (process exit status, argparse and the tree/append
round trips are outside; those delegate to the C02/C08 kernels)."""
from __future__ import annotations

import ast

import z3

from vf.common import ObResult, Unit
from vf.props.c17 import _cex
from vf.pysym import rxdom
from vf.pysym.engine import Engine
from vf.pysym.harness import decide
from vf.pysym.models import Native
from vf.pysym.values import ModelRaise, SObj

CLI = "py7zr.cli"

ASSUMPTIONS = [
    "the volume-size pattern and its flags are taken from the live Cli().unit_pattern and translated to a z3 regular "
    "expression (one string variable per capture group; the split is unique for this pattern); dunits is the live dict",
    "run_test/run_extract: py7zr.SevenZipFile / is_7zfile / open / getpass are stubs; the archive stub fails at a symbolic "
    "point with a symbolic member of the library's exception set, or reports damage through testzip(); print_archiveinfo "
    "and all printing are no-ops (text is not the subject)",
    "4.test_real_archive / 4.list_real_archive: the real run_test/_run_list with the REAL print_archiveinfo on the read-side "
    "archive model of C06 (decoder contract stub); open / os.stat / is_7zfile and the date columns' datetime are stand-ins; "
    "f-string and %-format operands are evaluated, the resulting text is not inspected",
    "3.library_verdict: C04's obligations re-run for the calls the command makes",
]


def _cli(e):
    import py7zr.cli

    real = py7zr.cli.Cli()
    c = SObj(e.cls(CLI, "Cli"))
    c.attrs["unit_pattern"] = real.unit_pattern
    c.attrs["parser"] = None
    return c


def volume_size(maxlen=12):
    r = ObResult(bounds="every string of length <= %d; the accepted language is the live regular expression" % maxlen)
    eng = Engine([CLI], intmode="int")
    rxdom.install(eng)
    s = z3.String("size")

    def harness(e):
        e.assume(z3.Length(s) <= maxlen)
        c = _cli(e)
        valid = e.method(c, "_check_volumesize_valid", s)
        try:
            val = e.method(c, "_volumesize_unitconv", s)
        except ModelRaise as ex:
            return dict(valid=valid, exc=ex.name)
        lm = getattr(e, "last_match", None)
        return dict(valid=valid, val=val, groups=(lm.groups if lm is not None else None))

    def post(o):
        if not o["valid"]:
            return None
        if "exc" in o:
            return False  # a size that passed validation must convert
        import py7zr.cli

        g = o["groups"]
        if g is None or len(g) != 2:
            return False
        mult = z3.IntVal(1)
        for k, v in py7zr.cli.Cli.dunits.items():
            mult = z3.If(g[1] == z3.StringVal(k), z3.IntVal(v), mult)
        # the value is <digits> x <unit multiplier> (1 when no unit is given)
        return [o["val"] == z3.StrToInt(g[0]) * mult]

    decide(eng, harness, post, {"size": s}, r, describe=lambda o: "valid=%s %s" % (o["valid"], o.get("exc") or "converted"))
    _cex(r, "volume_size", lambda w: dict(module="vf.props.c19", func="replay_volume", kwargs=dict(size=str(w["size"]).strip('"'))),
         signature=lambda w: {"obligation": "volume_size", "class": "no_unit_suffix" if str(w["size"]).strip('"').isdigit() else "other"})
    return r


def replay_volume(size):
    import py7zr.cli

    c = py7zr.cli.Cli()
    if not c._check_volumesize_valid(size):
        return False, "%r is rejected by the validity check" % size
    try:
        v = c._volumesize_unitconv(size)
    except Exception as e:  # noqa
        return True, "-v %r passes validation, then the conversion raises %r" % (size, e)
    digits = size.rstrip("bkmgBKMG")
    want = int(digits) * (c.dunits[size[len(digits):]] if size[len(digits):] else 1)
    return v != want, "-v %r -> %r (expected %r)" % (size, v, want)


def help_forms():
    """the forms the help text describes (SIZE with and without b/k/m/g) are in the accepted language"""
    r = ObResult(bounds="digits{1..6} followed by nothing or one of b k m g B K M G")
    eng = Engine([CLI], intmode="int")
    s = z3.String("size")
    digs = z3.Loop(z3.Range(z3.StringVal("0"), z3.StringVal("9")), 1, 6)
    lang = z3.Concat(digs, z3.Option(z3.Union(*[z3.Re(z3.StringVal(c)) for c in "bkmgBKMG"])))

    def harness(e):
        e.assume(z3.InRe(s, lang))
        c = _cli(e)
        return dict(valid=e.method(c, "_check_volumesize_valid", s))

    decide(eng, harness, lambda o: [o["valid"] is True], {"size": s}, r, describe=lambda o: "valid=%s" % o["valid"])
    _cex(r, "help_forms", lambda w: dict(module="vf.props.c19", func="replay_volume", kwargs=dict(size=str(w["size"]).strip('"'))),
         signature=lambda w: {"obligation": "help_forms"})
    return r


# ---------------------------------------------------------------------- exit status mapping
EXC = ["Bad7zFile", "CrcError", "PasswordRequired", "UnsupportedCompressionMethodError", "DecompressionError", "LZMAError",
       "EOFError", "OSError"]
POINTS = {"run_test": ["open", "testzip_raises", "testzip_reports"],  # run_test never calls archiveinfo()
          "run_extract": ["open", "archiveinfo", "extractall"]}


def _exc(name):
    import lzma

    import py7zr.exceptions as X

    cls = {"LZMAError": lzma.LZMAError, "EOFError": EOFError, "OSError": OSError}.get(name) or getattr(X, name)
    return ModelRaise(name, ["stub"], cls=cls)


class _Arch(Native):
    def __init__(self, point, exc):
        self.point, self.exc = point, exc
        self.filename = "a.7z"
        self.closed = False

    def archiveinfo(self, eng):
        if self.point == "archiveinfo":
            raise _exc(self.exc)
        return _Info()

    def testzip(self, eng):
        if self.point == "testzip_raises":
            raise _exc(self.exc)
        return "bad/member" if self.point == "testzip_reports" else None

    def extractall(self, eng, path=None, callback=None):
        if self.point == "extractall":
            raise _exc(self.exc)
        return None

    def close(self, eng):
        self.closed = True


class _Info(Native):
    uncompressed = 10


class _Args(Native):
    def __init__(self, **k):
        self.__dict__.update(k)


class _Target(str):
    """args.arcfile: run_list wants a path object (suffix / parent / stem), run_test a name"""
    suffix, stem, parent = ".7z", "a", "."


class _DT(Native):
    """a datetime stand-in for the listing's date columns (their text is not the subject)"""

    def astimezone(self, eng, *a):
        return self

    def strftime(self, eng, fmt):
        return "2020-01-01" if "Y" in fmt else "00:00:00"


class _F(Native):
    def __enter__(self, eng):
        return self

    def __exit__(self, eng, *a):
        return None


def exit_status(func, point, exc):
    import builtins

    import py7zr

    r = ObResult(bounds="%s with the archive stub failing at %r with %s (None = no failure)" % (func, point, exc))
    eng = Engine([CLI], intmode="int")
    eng.models.reg(builtins.open, lambda e, *a, **k: _F())
    eng.overrides[("py7zr.py7zr", "is_7zfile")] = lambda e, t: True
    eng.overrides[(CLI, "Cli.print_archiveinfo")] = lambda e, *a, **k: None
    eng.class_models[("py7zr.py7zr", "SevenZipFile")] = lambda e, *a, **k: _open(point, exc)
    eng.class_models[(CLI, "CliExtractCallback")] = lambda e, *a, **k: None
    verbose = z3.Bool("verbose")

    def _open(point_, exc_):
        if point_ == "open":
            raise _exc(exc_)
        return _Arch(point_, exc_)

    def harness(e):
        c = _cli(e)
        v = e.branch(verbose)
        args = _Args(arcfile="a.7z", verbose=v, password=False, odir=None)
        try:
            rc = e.method(c, func, args)
        except ModelRaise as ex:
            return dict(escaped=ex.name)
        return dict(rc=rc)

    def post(o):
        if "escaped" in o:
            return [point is not None]      # an escaping exception ends the interpreter with status 1: only allowed on failure
        if point is None:
            return [o["rc"] == 0]
        reached = not (point == "archiveinfo" and func == "run_extract")  # archiveinfo is only consulted with --verbose
        if not reached:
            return None
        return [o["rc"] != 0]

    decide(eng, harness, post, {"verbose": verbose}, r, describe=lambda o: str(o))
    _cex(r, "exit_status", lambda w: dict(module="vf.props.c19", func="replay_exit", kwargs=dict(func=func, point=point, exc=exc, verbose=bool(w["verbose"]))),
         signature=lambda w: {"obligation": "exit_status", "func": func, "point": point, "exc": exc})
    return r


def test_real_archive(pattern, folders, opts, func="run_test"):
    """Cli.run_test with the REAL print_archiveinfo and the real SevenZipFile model on an intact archive: exit status 0"""
    import builtins
    import os

    from vf.harness import extract as X
    from vf.harness import readcases as RC

    r = ObResult(bounds="%s on an intact reference-written archive of layout %s (sizes/CRCs symbolic), opened as the command "
                        "does; the printing code is NOT stubbed" % (func, RC.shape_name(pattern, folders, opts)))
    eng = RC.mk_engine(unroll=1, modules=[CLI, "py7zr.compressor"])
    sym = RC.symbols(eng, pattern)

    class _St(Native):
        st_size = 12345

    def harness(e):
        entries, layout = RC.build(e, pattern, folders, opts, sym)
        z, fp, w = X.setup_read(e, entries, layout, consume="all-at-once")
        z.attrs["filename"] = "a.7z"
        e.models.reg(builtins.open, lambda e_, *a, **k: _F())
        e.models.reg(os.stat, lambda e_, p_: _St())
        e.overrides[("py7zr.helpers", "filetime_to_dt")] = lambda e_, ft: _DT()
        e.overrides[("py7zr.py7zr", "is_7zfile")] = lambda e_, t: True
        e.class_models[("py7zr.py7zr", "SevenZipFile")] = lambda e_, *a, **k: z
        c = _cli(e)
        try:
            if func == "run_list":
                rc = e.method(c, "_run_list", "a.7z", True)     # (run_list only adds the multi-volume suffix dispatch)
            else:
                rc = e.method(c, func, _Args(arcfile="a.7z", verbose=False, password=False, odir=None))
        except ModelRaise as ex:
            return dict(escaped="%s%s" % (ex.name, str(ex.eargs)[:80]))
        finally:
            e.class_models.pop(("py7zr.py7zr", "SevenZipFile"), None)
        return dict(rc=rc)

    def post(o):
        return ["escaped" not in o and o.get("rc") == 0]

    decide(eng, harness, post, RC.inputs_of(sym, pattern, folders), r, describe=lambda o: str(o))
    _cex(r, "test_real_archive", lambda w: dict(module="vf.props.c19", func="replay_test_real", kwargs=dict(
        pattern=pattern, folders=folders, opts=opts, func=func, witness={k: int(v) for k, v in w.items() if isinstance(v, int)})),
         signature=lambda w: {"obligation": "test_real_archive", "func": func, "no_streams": not folders})
    return r


def replay_test_real(pattern, folders, opts, witness, func="run_test"):
    """the real command line on the concrete counterpart"""
    import os
    import shutil
    import subprocess
    import sys
    import tempfile

    from vf.props import c06

    img, entries, datas = c06.concrete_case(pattern, folders, opts, witness)
    d = tempfile.mkdtemp(prefix="vf_c19t_")
    try:
        p = os.path.join(d, "a.7z")
        open(p, "wb").write(img)
        env = dict(os.environ)
        cmd = ["t", p] if func == "run_test" else ["l", "--verbose", p]
        out = subprocess.run([sys.executable, "-m", "py7zr"] + cmd, capture_output=True, text=True, timeout=120, env=env)
        return out.returncode != 0, "py7zr %s <intact archive %s> exits %d: %s" % (cmd[0], pattern or "(empty)", out.returncode,
                                                                                  (out.stderr.strip().splitlines() or [""])[-1][:200])
    finally:
        shutil.rmtree(d, ignore_errors=True)


def replay_exit(func, point, exc, verbose):
    """real Cli method with py7zr.SevenZipFile replaced by a failing stand-in (concrete run of the same scenario)"""
    import argparse
    import builtins
    import contextlib
    import io
    import lzma
    import os
    import tempfile

    import py7zr
    import py7zr.cli
    import py7zr.exceptions as X

    def mk():
        cls = {"LZMAError": lzma.LZMAError, "EOFError": EOFError, "OSError": OSError}.get(exc) or getattr(X, exc)
        try:
            return cls("stub")
        except TypeError:
            return cls("a", "b", "c")

    class A:
        filename = "a.7z"

        def __init__(self, *a, **k):
            if point == "open":
                raise mk()

        def archiveinfo(self):
            if point == "archiveinfo":
                raise mk()
            return argparse.Namespace(uncompressed=10)

        def testzip(self):
            if point == "testzip_raises":
                raise mk()
            return "bad/member" if point == "testzip_reports" else None

        def extractall(self, path=None, callback=None):
            if point == "extractall":
                raise mk()

    d = tempfile.mkdtemp(prefix="vf_c19_")
    p = os.path.join(d, "a.7z")
    with py7zr.SevenZipFile(p, "w") as z:
        z.writestr(b"x", "x")
    real = py7zr.SevenZipFile
    c = py7zr.cli.Cli()
    c.print_archiveinfo = lambda *a, **k: None
    py7zr.SevenZipFile = A
    try:
        with contextlib.redirect_stdout(io.StringIO()), contextlib.redirect_stderr(io.StringIO()):
            try:
                rc = getattr(c, func)(argparse.Namespace(arcfile=p, verbose=verbose, password=False, odir=None))
            except Exception as e:  # noqa
                rc = "escaped:%s" % type(e).__name__
    finally:
        py7zr.SevenZipFile = real
        import shutil

        shutil.rmtree(d, ignore_errors=True)
    failing = point is not None and not (point == "archiveinfo" and func == "run_extract" and not verbose)
    bad = (rc == 0) if failing else (rc != 0)
    return bad, "%s: failure at %s with %s -> %r" % (func, point, exc, rc)


def units(tier):
    M = "vf.props.c19"
    us = [Unit("1.volume_size", M, "volume_size", dict(maxlen=12), 600), Unit("1.help_forms", M, "help_forms", {}, 600)]
    for func, points in POINTS.items():
        us.append(Unit("2.exit_status[%s,no failure]" % func, M, "exit_status", dict(func=func, point=None, exc=None), 600))
        for pt in points:
            for ex in (EXC if pt != "testzip_reports" else [None]):
                if tier == "quick" and ex not in (None, "Bad7zFile", "CrcError", "PasswordRequired", "LZMAError", "OSError"):
                    continue
                us.append(Unit("2.exit_status[%s,%s,%s]" % (func, pt, ex), M, "exit_status", dict(func=func, point=pt, exc=ex), 600))
    for (p_, f_, o_) in [("f", [1], {}), ("ff", [1, 1], {}), ("fdf", [2], {}), ("d", [], {}), ("", [], {}), ("fd", [1], {"times": "none", "attrs": "none"})]:
        from vf.harness import readcases as RC

        us.append(Unit("4.test_real_archive[%s]" % RC.shape_name(p_, f_, o_), M, "test_real_archive", dict(pattern=p_, folders=f_, opts=o_), 900))
        us.append(Unit("4.list_real_archive[%s]" % RC.shape_name(p_, f_, o_), M, "test_real_archive",
                       dict(pattern=p_, folders=f_, opts=o_, func="run_list"), 900))
    # (2) ties the exit status to the library's verdict; that the verdict itself tells the truth about damaged data is C04 –
    # the part the command relies on is re-decided here: 't' = test() + testzip() on a file object, 'x' = extractall by path
    from vf.props import c04

    for u in c04.units(tier):
        t_path = u.name.startswith("3.damaged[") and u.kwargs.get("mode") == "testzip"
        x_path = u.name.startswith("3.damaged_by_path[") and u.kwargs.get("mode") == "extractall"
        if t_path or x_path or u.name.startswith("4.packed_test"):
            us.append(Unit("3.library_verdict(%s).%s" % ("t" if not x_path else "x", u.name), u.module, u.func, u.kwargs, u.timeout))
    return us
