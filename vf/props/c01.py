"""C01 – content round trip: the py7zr code between the caller's bytes and the codec libraries, and back
(relative to the codec contract; the codecs themselves are outside)."""
from __future__ import annotations

import ast
import io

import z3

from vf.common import ObResult, Unit
from vf.harness import extract as X
from vf.harness import readcases as RC
from vf.harness import session as S
from vf.props import c07, c08, c17
from vf.props.c17 import _cex
from vf.pysym import ropes, tokens
from vf.pysym.engine import Engine
from vf.pysym.harness import decide
from vf.pysym.models import Native
from vf.pysym.values import ModelRaise, Rope, SFile, SObj, is_sym

CP, IO_ = "py7zr.compressor", "py7zr.io"

ASSUMPTIONS = [
    "rope domain: byte strings are content-abstract segment lists with symbolic lengths; exact for code that moves bytes "
    "without inspecting them",
    "cipher stub: encrypt/decrypt(view) accept only multiples of 16 bytes (else ValueError, as PyCryptodome does), return "
    "as many bytes; codec stage stubs are FIFOs (identity on content, arbitrary buffering); the decoder stub returns the "
    "next r bytes of the ideal stream, r <= max_length only if the stage honours the limit",
    "source/archive file stubs return at most the requested number of bytes (short reads allowed, 0 only at EOF)",
    "number of chunks / calls / loop iterations bounded as stated; lengths unbounded (z3 Int)",
]


def eq(eng, a, b):
    return eng.compare(ast.Eq(), a, b)


def rope_engine(unroll=8):
    eng = Engine([CP, IO_], intmode="int", bytes_domain="rope", unroll=unroll)
    return eng


def cat(ropes_):
    out = Rope()
    for r in ropes_:
        out = Rope(out.segs + list(r.segs))
    return out


def _normcrc(e, dg):
    """normal form of a running CRC (must be computed inside the path: normalisation forks)"""
    return ropes.rope_norm(e, Rope(dg.segs)) if isinstance(dg, ropes.RopeCrc) else []


def shape_or_empty(eng, norm, src, total):
    """norm == [(src, 0, total)], or norm == [] and total == 0"""
    w = shape_is(eng, norm, [(src, 0, total)])
    if w is None:
        w = shape_is(eng, norm, [])
        if w is None:
            return None
        w = w + [eq(eng, total, 0)]
    return w


def shape_is(eng, norm, want):
    """conditions that the normalised segment list `norm` equals want = [(src, off, len), ...] (zero-length ones dropped)"""
    srcs = [s[0] for s in norm]
    wsrc = [w[0] for w in want]
    if srcs != wsrc:
        return None
    c = []
    for s, w in zip(norm, want):
        c += [eq(eng, s[1], w[1]), eq(eng, s[2], w[2])]
    return c


# ------------------------------------------------------------------------------- 1. AES buffering
class StubCipher(Native):
    def __init__(self, out_src):
        self.fed = Rope()
        self.out = 0
        self.out_src = out_src

    def _run(self, eng, view):
        n = view.length()
        if eng.branch(eng.compare(ast.NotEq(), eng.binop(ast.Mod(), n, 16), 0)):
            raise ModelRaise("ValueError", ["Data must be padded to 16 byte boundary in CBC mode"], cls=ValueError)
        self.fed = Rope(self.fed.segs + list(view.segs))
        r = Rope([(self.out_src, self.out, n)])
        self.out = eng.binop(ast.Add(), self.out, n)
        return r

    def encrypt(self, eng, view):
        return self._run(eng, view)

    def decrypt(self, eng, view):
        return self._run(eng, view)


def aes_compress(k):
    r = ObResult(bounds="AESCompressor.compress x %d chunks of unbounded symbolic length, then flush(); rope domain" % k)
    eng = rope_engine()
    ls = [eng.sym_int("len%d" % i, 48) for i in range(k)]

    def harness(e):
        c = SObj(e.cls(CP, "AESCompressor"))
        cip = StubCipher("CT")
        c.attrs.update(cipher=cip, flushed=False, buf=e.new(e.cls(IO_, "Buffer"), 64))
        outs, off = [], 0
        try:
            for l in ls:
                outs.append(e.method(c, "compress", Rope([("IN", off, l)])))
                off = e.binop(ast.Add(), off, l)
            outs.append(e.method(c, "flush"))
        except ModelRaise as ex:
            return dict(exc=ex.name)
        return dict(fed=ropes.rope_norm(e, cip.fed), out=ropes.rope_norm(e, cat(outs)), total=off)

    def post(o):
        if "exc" in o:
            return False  # the cipher was handed a length that is not a multiple of 16, or something else raised
        total = o["total"]
        pad = eng.binop(ast.Mod(), eng.binop(ast.Sub(), 0, total), 16)
        out = []
        for want_fed, want_out in (([("IN", 0, total), ("PAD", 0, pad)], [("CT", 0, eng.binop(ast.Add(), total, pad))]),
                                   ([("IN", 0, total)], [("CT", 0, total)]), ([], [])):
            a, b = shape_is(eng, o["fed"], want_fed), shape_is(eng, o["out"], want_out)
            if a is not None and b is not None:
                extra = []
                if len(want_fed) == 1:
                    extra.append(eq(eng, pad, 0))
                if not want_fed:
                    extra.append(eq(eng, total, 0))
                return a + b + extra
        return False

    decide(eng, harness, post, {"len%d" % i: l for i, l in enumerate(ls)}, r,
           describe=lambda o: o.get("exc") or "fed=%s out=%s" % ([s[0] for s in o["fed"]], [s[0] for s in o["out"]]))
    _cex(r, "aes_compress", lambda w: dict(module="vf.props.c01", func="replay_aes", kwargs=dict(
        lens=[min(int(w["len%d" % i]), 5000) for i in range(k)], direction="enc")), signature=lambda w: {"obligation": "aes_compress"})
    return r


def aes_decompress(k):
    r = ObResult(bounds="AESDecompressor.decompress x %d non-empty chunks of unbounded symbolic length (aligned or not), then the "
                        "flush call decompress(b''); rope domain" % k)
    eng = rope_engine()
    ls = [eng.sym_int("len%d" % i, 48) for i in range(k)]

    def harness(e):
        c = SObj(e.cls(CP, "AESDecompressor"))
        cip = StubCipher("PT")
        c.attrs.update(cipher=cip, buf=e.new(e.cls(IO_, "Buffer"), 64))
        outs, off = [], 0
        try:
            for l in ls:
                e.assume(e.compare(ast.GtE(), l, 1))  # an empty chunk is the flush signal of this interface (sent at EOF only)
                outs.append(e.method(c, "decompress", Rope([("CTX", off, l)])))
                off = e.binop(ast.Add(), off, l)
            outs.append(e.method(c, "decompress", Rope()))
        except ModelRaise as ex:
            return dict(exc=ex.name)
        return dict(fed=ropes.rope_norm(e, cip.fed), out=ropes.rope_norm(e, cat(outs)), total=off)

    def post(o):
        if "exc" in o:
            return None  # raising is a detected failure (unaligned ciphertext); the claim is about successful returns
        total = o["total"]
        pad = eng.binop(ast.Mod(), eng.binop(ast.Sub(), 0, total), 16)
        for want_fed, want_out in (([("CTX", 0, total), ("PAD", 0, pad)], [("PT", 0, eng.binop(ast.Add(), total, pad))]),
                                   ([("CTX", 0, total)], [("PT", 0, total)]), ([], [])):
            a, b = shape_is(eng, o["fed"], want_fed), shape_is(eng, o["out"], want_out)
            if a is not None and b is not None:
                extra = [eq(eng, pad, 0)] if len(want_fed) == 1 else ([eq(eng, total, 0)] if not want_fed else [])
                return a + b + extra
        return False

    decide(eng, harness, post, {"len%d" % i: l for i, l in enumerate(ls)}, r,
           describe=lambda o: o.get("exc") or "fed=%s out=%s" % ([s[0] for s in o["fed"]], [s[0] for s in o["out"]]))
    _cex(r, "aes_decompress", lambda w: dict(module="vf.props.c01", func="replay_aes", kwargs=dict(
        lens=[min(int(w["len%d" % i]), 5000) for i in range(k)], direction="dec")), signature=lambda w: {"obligation": "aes_decompress"})
    return r


def replay_aes(lens, direction):
    """real AESCompressor / AESDecompressor with the real cipher on concrete chunk lengths"""
    from py7zr.compressor import AESCompressor, AESDecompressor

    total = sum(lens)
    data = bytes((i * 7 + 3) & 0xFF for i in range(total))
    c = AESCompressor("pw")
    props = c.encode_filter_properties()
    if direction == "enc":
        out, off = b"", 0
        try:
            for l in lens:
                out += c.compress(data[off:off + l])
                off += l
            out += c.flush()
        except Exception as e:  # noqa
            return True, "chunks %s: compress/flush raised %r" % (lens, e)
        d = AESDecompressor(props, "pw")
        back = d.decompress(out) + d.decompress(b"")
        ok = back[:total] == data and len(out) % 16 == 0 and len(out) - total < 16
        return (not ok), "chunks %s: ciphertext %d bytes, round trip %s" % (lens, len(out), back[:total] == data)
    ct = c.compress(data + bytes(-total % 16)) + c.flush()
    ct = ct[:total]
    d = AESDecompressor(props, "pw")
    out, off = b"", 0
    try:
        for l in lens:
            out += d.decompress(ct[off:off + l])
            off += l
        out += d.decompress(b"")
    except Exception as e:  # noqa
        return False, "raised %r (detected)" % (e,)
    n = (total // 16) * 16
    return out[:n] != data[:n], "chunks %s: decrypted prefix equal: %s" % (lens, out[:n] == data[:n])


# --------------------------------------------------------------------- 2. compressor block loop
class FifoStage(Native):
    """encoder stage stub: identity on content, arbitrary buffering"""

    def __init__(self, eng, idx, fresh):
        self.eng, self.idx, self.fresh = eng, idx, fresh
        self.held = Rope()
        self.inn = 0
        self.emitted = 0

    def _emit(self, eng, n):
        l, rest = ropes.rope_cut(eng, self.held, n)
        self.held = Rope(rest)
        self.emitted = eng.binop(ast.Add(), self.emitted, n)
        # content is relabelled per stage: OUT<idx>[emitted...] – a stage's output is its own stream
        return Rope([("S%d" % self.idx, eng.binop(ast.Sub(), self.emitted, n), n)])

    def compress(self, eng, data):
        self.held = Rope(self.held.segs + list(data.segs))
        self.inn = eng.binop(ast.Add(), self.inn, data.length())
        e_ = self.fresh("emit%d" % self.idx)
        eng.assume(eng.compare(ast.LtE(), e_, self.held.length()))
        return self._emit(eng, e_)

    def flush(self, eng):
        return self._emit(eng, self.held.length())


class SrcFd(Native):
    def __init__(self, eng, size, fresh):
        self.size, self.pos, self.fresh, self.reqs = size, 0, fresh, []

    def read(self, eng, n=None):
        self.reqs.append(n)
        rem = eng.binop(ast.Sub(), self.size, self.pos)
        g = self.fresh("got")
        eng.assume(eng.compare(ast.LtE(), g, rem))
        eng.assume(eng.compare(ast.LtE(), g, n))
        eng.assume(z3.Implies(z3.And(eng.lift(rem) > 0, eng.lift(n) > 0), eng.lift(g) >= 1))
        r = Rope([("IN", self.pos, g)])
        self.pos = eng.binop(ast.Add(), self.pos, g)
        return r


class SinkFp(Native):
    def __init__(self):
        self.written = Rope()

    def write(self, eng, data):
        self.written = Rope(self.written.segs + list(data.segs))
        return data.length()


def compressor_loop(nstages, reads):
    r = ObResult(bounds="SevenZipCompressor.compress + flush, chain of %d FIFO stages, source of unbounded symbolic size read in "
                        "<= %d blocks (block size symbolic), short reads allowed" % (nstages, reads))
    eng = rope_engine()
    eng.loop_limits[(CP, "SevenZipCompressor.compress")] = (reads, "assume")
    eng.overrides[("py7zr.helpers", "calculate_crc32")] = lambda e, data, value=0, blocksize=None: ropes.RopeCrc(
        (value.segs if isinstance(value, ropes.RopeCrc) else []) + list(data.segs))
    size = eng.sym_int("size", 48)
    bs = eng.sym_int("block_size", 30)
    cnt = {"n": 0}

    def fresh(what):
        cnt["n"] += 1
        return eng.sym_int("%s!%d" % (what, cnt["n"]), 48)

    def harness(e):
        cnt["n"] = 0
        e.assume(e.compare(ast.GtE(), bs, 1))
        comp = SObj(e.cls(CP, "SevenZipCompressor"))
        stages = [FifoStage(e, i, fresh) for i in range(nstages)]
        comp.attrs.update(chain=stages, _unpacksizes=[0] * nstages, _block_size=bs, digest=0, packsize=0,
                          methods_map=[False] * nstages)
        fd, fp = SrcFd(e, size, fresh), SinkFp()
        try:
            insize, foutsize, crc = e.method(comp, "compress", fd, fp)
            fl = e.method(comp, "flush", fp)
        except ModelRaise as ex:
            return dict(exc=ex.name)
        return dict(insize=insize, foutsize=foutsize, crc=crc, fl=fl, comp=comp, stages=stages, fd=fd, fp=fp,
                    written=ropes.rope_norm(e, fp.written), crcsegs=ropes.rope_norm(e, Rope(crc.segs)) if isinstance(crc, ropes.RopeCrc) else None,
                    digest=_normcrc(e, comp.attrs["digest"]))

    def post(o):
        if "exc" in o:
            return False
        c = []
        comp, stages, fd = o["comp"], o["stages"], o["fd"]
        c.append(eq(eng, o["insize"], size))                      # the whole source was consumed …
        c.append(eq(eng, fd.pos, size))
        for rq in fd.reqs:
            c.append(eng.compare(ast.LtE(), rq, bs))               # … in reads of at most one block
        last = stages[-1]
        total_out = last.emitted
        w = shape_is(eng, o["written"], [("S%d" % (nstages - 1), 0, total_out)])
        if w is None:
            w = shape_is(eng, o["written"], [])
            if w is None:
                return False
            w = w + [eq(eng, total_out, 0)]
        c += w                                                        # fp received exactly the last stage's output, in order
        c.append(eq(eng, comp.attrs["packsize"], total_out))
        c.append(eq(eng, eng.binop(ast.Add(), o["foutsize"], o["fl"]), total_out))
        for i, st in enumerate(stages):
            c.append(eq(eng, comp.attrs["_unpacksizes"][i], st.inn))  # per-stage accounting = bytes that entered the stage
            c.append(eq(eng, st.emitted, st.inn))                      # after flush every stage is drained
            c.append(eq(eng, st.held.length(), 0))
        c.append(eq(eng, stages[0].inn, size))
        if o["crcsegs"] is not None:
            cs = shape_is(eng, o["crcsegs"], [("IN", 0, size)])
            if cs is None:
                cs = shape_is(eng, o["crcsegs"], [])
                cs = None if cs is None else cs + [eq(eng, size, 0)]
            if cs is None:
                return False
            c += cs                                                   # the member CRC covers exactly the source bytes
        else:
            c.append(eq(eng, size, 0))
        ds = shape_or_empty(eng, o["digest"], "S%d" % (nstages - 1), total_out)
        if ds is None:
            return False
        c += ds                                                       # the packed-stream digest covers what was written
        return c

    decide(eng, harness, post, {"size": size, "block_size": bs}, r,
           describe=lambda o: o.get("exc") or "reads=%d" % len(o["fd"].reqs))
    r.note = (r.note + " cut_paths=%d" % eng.cut_paths).strip()
    _cex(r, "compressor_loop", lambda w: dict(module="vf.props.c01", func="replay_compressor", kwargs=dict(
        size=min(int(w["size"]), 300000), block=max(1, min(int(w["block_size"]), 70000)), nstages=nstages)),
         signature=lambda w: {"obligation": "compressor_loop"})
    return r


def replay_compressor(size, block, nstages):
    import zlib

    import py7zr
    from py7zr.compressor import SevenZipCompressor

    filters = [[{"id": py7zr.FILTER_COPY}], [{"id": py7zr.FILTER_X86}, {"id": py7zr.FILTER_DEFLATE}],
               [{"id": py7zr.FILTER_X86}, {"id": py7zr.FILTER_BZIP2}, {"id": py7zr.FILTER_CRYPTO_AES256_SHA256}]][min(nstages, 3) - 1]
    data = bytes((i * 31 + 7) & 0xFF for i in range(size))
    c = SevenZipCompressor(filters=filters, password="pw" if nstages >= 3 else None, blocksize=block)
    out = io.BytesIO()
    asked = []

    class Src(io.BytesIO):
        def read(self, n=-1):
            asked.append(n)
            return super().read(n)

    insize, fout, crc = c.compress(Src(data), out)
    fl = c.flush(out)
    unbounded = [n for n in asked if n is None or n < 0 or n > block]
    if unbounded:
        return True, "the source was asked for %s bytes at once (block size %d)" % (
            "ALL remaining" if unbounded[0] is None or unbounded[0] < 0 else unbounded[0], block)
    ok = insize == size and crc == zlib.crc32(data) and fout + fl == len(out.getvalue()) == c.packsize and \
        c.digest == zlib.crc32(out.getvalue()) and c.unpacksizes[-1] == size
    return (not ok), "insize=%d fout+flush=%d written=%d packsize=%d" % (insize, fout + fl, len(out.getvalue()), c.packsize)


# -------------------------------------------------------------------- 3. decompressor chunking
class StubStage(Native):
    """decoder stage: returns the next r bytes of its ideal output stream"""

    def __init__(self, eng, name, honour, total, fresh):
        self.name, self.honour, self.total, self.fresh = name, honour, total, fresh
        self.produced = 0
        self.calls = []

    def decompress(self, eng, data, max_length=-1):
        rr = self.fresh("r_" + self.name)
        rem = eng.binop(ast.Sub(), self.total, self.produced)
        eng.assume(eng.compare(ast.LtE(), rr, rem))
        if self.honour:
            eng.assume(z3.Or(eng.lift(max_length) < 0, eng.lift(rr) <= eng.lift(max_length)))
        self.calls.append((data.length(), max_length, rr, getattr(self, "ctx", {}).get("limit")))
        out = Rope([("D_" + self.name, self.produced, rr)])
        self.produced = eng.binop(ast.Add(), self.produced, rr)
        return out


class PackedFp(Native):
    def __init__(self, eng, fresh):
        self.pos, self.fresh, self.reqs = 0, fresh, []

    def read(self, eng, n=None):
        g = self.fresh("rd")
        eng.assume(eng.compare(ast.LtE(), g, n))
        self.reqs.append(n)
        r = Rope([("PACKED", self.pos, g)])
        self.pos = eng.binop(ast.Add(), self.pos, g)
        return r


def decompressor_calls(k, honour, nstages=1):
    r = ObResult(bounds="SevenZipDecompressor.decompress x %d calls with symbolic max_length (>= 0), %d stage(s) %s the limit, "
                        "block size / pack size / unpack sizes symbolic, short reads allowed" % (k, nstages, "honouring" if honour else "ignoring"))
    eng = rope_engine()
    eng.overrides[("py7zr.helpers", "calculate_crc32")] = lambda e, data, value=0, blocksize=None: ropes.RopeCrc(
        (value.segs if isinstance(value, ropes.RopeCrc) else []) + list(data.segs))
    ms = [eng.sym_int("max%d" % i, 40) for i in range(k)]
    U, IN, BS = eng.sym_int("unpack", 48), eng.sym_int("packsize", 48), eng.sym_int("block", 30)
    cnt = {"n": 0}

    def fresh(what):
        cnt["n"] += 1
        return eng.sym_int("%s!%d" % (what, cnt["n"]), 48)

    def harness(e):
        cnt["n"] = 0
        e.assume(e.compare(ast.GtE(), BS, 1))
        d = SObj(e.cls(CP, "SevenZipDecompressor"))
        totals = [fresh("inter") for _ in range(nstages - 1)] + [U]
        stages = [StubStage(e, "s%d" % i, honour, totals[i], fresh) for i in range(nstages)]
        fp = PackedFp(e, fresh)
        d.attrs.update(input_size=IN, consumed=0, block_size=BS, chain=stages, _unpacksizes=list(totals),
                       _unpacked=[0] * nstages, _unused=Rope(), _buf=Rope(), _pos=0, digest=0, crc=None)
        outs = []
        ctx = {}
        for st_ in stages:
            st_.ctx = ctx
        try:
            for m in ms:
                ctx["limit"] = m
                outs.append(e.method(d, "decompress", fp, m))
        except ModelRaise as ex:
            return dict(exc=ex.name)
        held = e.binop(ast.Sub(), d.attrs["_buf"].length(), d.attrs["_pos"])
        return dict(norm=ropes.rope_norm(e, cat(outs)), lens=[o.length() for o in outs], d=d, held=held, last=stages[-1], fp=fp, stages=stages,
                    digest=_normcrc(e, d.attrs["digest"]))

    def post(o):
        if "exc" in o:
            return None  # EOFError on over-long data etc.: a detected failure
        c = []
        d, last = o["d"], o["last"]
        total = 0
        for l in o["lens"]:
            total = eng.binop(ast.Add(), total, l)
        for l, m in zip(o["lens"], ms):
            c.append(eng.compare(ast.LtE(), l, m))                         # each returned chunk <= max_length
        c.append(eng.compare(ast.LtE(), d.attrs["consumed"], IN))           # never reads past the folder's packed size
        c.append(eng.compare(ast.GtE(), o["held"], 0))
        c.append(eq(eng, eng.binop(ast.Add(), total, o["held"]), last.produced))  # delivered + carried = produced
        for rq in o["fp"].reqs:
            c.append(eng.compare(ast.LtE(), rq, BS))                        # reads of at most one block
        for st_ in o["stages"]:
            for (_n, ml, _r, lim) in st_.calls:
                # every stage of the chain is asked for at most what the caller asked for (a later stage may expand too: AES -> LZMA)
                c.append(eng.compare(ast.GtE(), ml, 0))
                c.append(eng.compare(ast.LtE(), ml, lim))
        w = shape_is(eng, o["norm"], [("D_s%d" % (nstages - 1), 0, total)])
        if w is None:
            w = shape_is(eng, o["norm"], [])
            if w is None:
                return False
            w = w + [eq(eng, total, 0)]
        c += w                                                               # outputs concatenate to a prefix of the ideal stream
        ds = shape_or_empty(eng, o["digest"], "D_s%d" % (nstages - 1), total)
        if ds is None:
            return False
        c += ds                                                              # the folder digest covers exactly what was returned
        return c

    inputs = {"max%d" % i: m for i, m in enumerate(ms)}
    inputs.update(unpack=U, packsize=IN, block=BS)
    decide(eng, harness, post, inputs, r, describe=lambda o: o.get("exc") or "%d chunks" % len(o["lens"]))
    _cex(r, "decompressor_calls", lambda w: dict(module="vf.props.c01", func="replay_decompressor", kwargs=dict(
        maxes=[min(int(w["max%d" % i]), 100000) for i in range(k)], block=max(1, min(int(w["block"]), 65536)))),
         signature=lambda w: {"obligation": "decompressor_calls"})
    return r


def replay_decompressor(maxes, block):
    import py7zr
    from py7zr.compressor import SevenZipCompressor, SevenZipDecompressor

    data = bytes((i * 13 + (i >> 8)) & 0xFF for i in range(200000))
    # the solver's witness fixes the *shape* of the call sequence (which limits are small / zero); real decoders need
    # realistic amounts of input before they produce output, so the same shape is tried at several scales
    tried = 0
    for filters in ([{"id": py7zr.FILTER_COPY}], [{"id": py7zr.FILTER_DEFLATE}], [{"id": py7zr.FILTER_ZSTD}],
                    [{"id": py7zr.FILTER_LZMA2, "preset": 1}], [{"id": py7zr.FILTER_X86}, {"id": py7zr.FILTER_DEFLATE}]):
        c = SevenZipCompressor(filters=filters)
        out = io.BytesIO()
        c.compress(io.BytesIO(data), out)
        c.flush(out)
        seqs = [[m * sc for m in maxes] for sc in (1, 100, 5000)] + [[100, 50, 150000, 77], [10, 10, 10, 60000, 10], [1, 1, 1, 1, 199000]]
        for blk in sorted({block, 64, 4096, 65536}):
            for seq in seqs:
                d = SevenZipDecompressor(c.coders, c.packsize, c.unpacksizes, None, blocksize=blk)
                fp = io.BytesIO(out.getvalue())
                got = b""
                tried += 1
                scale = 1
                seen = []

                class Spy:
                    """records what each stage of the real chain is asked for"""

                    def __init__(self, inner, idx):
                        self.inner, self.idx = inner, idx

                    def decompress(self, data, max_length=-1):
                        seen.append((self.idx, max_length, cur[0]))
                        return self.inner.decompress(data, max_length)

                    def __getattr__(self, a):
                        return getattr(self.inner, a)

                cur = [0]
                if len(d.chain) > 1:
                    d.chain = [Spy(x, i) for i, x in enumerate(d.chain)]
                try:
                    for m in seq:
                        m = m * scale
                        cur[0] = m
                        chunk = d.decompress(fp, m)
                        bad = [t for t in seen if t[1] < 0 or t[1] > t[2]]
                        if bad:
                            return True, "stage %d of the chain %s was asked for max_length %d while the caller asked for %d" % (
                                bad[0][0], filters, bad[0][1], bad[0][2])
                        if len(chunk) > m:
                            return True, "chunk of %d bytes for max_length %d (%s, block %d)" % (len(chunk), m, filters, blk)
                        got += chunk
                except Exception as e:  # noqa
                    continue
                if got != data[:len(got)]:
                    return True, "returned chunks are not a prefix of the stream (%s, maxes x%d %s, block %d)" % (filters, scale, maxes, blk)
    return False, "chunks concatenate to a prefix of the stream in %d concrete runs" % tried


# ---------------------------------------------------------- 4. header bookkeeping write -> read
class HeaderDecoder(Native):
    """decoder stub for the encoded-header folder: hands back the raw header the session's encoder stub consumed"""

    def __init__(self, items, rec):
        self.items, self.rec, self.done = items, rec, False
        self.consumed, self.input_size, self.crc = 0, 0, None

    def decompress(self, eng, fp, max_length=-1):
        self.rec.setdefault("read_at", fp.tell(eng))
        self.rec.setdefault("max_length", max_length)
        if self.done:
            return eng.mkbytes(b"")
        self.done = True
        from vf.pysym.values import SBytes

        return SBytes(list(self.items))


def session_roundtrip(pattern, nstages=1, header_mode="raw", mode="w"):
    """real create session, then the real reader on the header it wrote: names in order, sizes, digests, folder.
    header_mode 'encoded': the header goes through Header._encode_header (encoder stub) and comes back through the
    encoded-header branch of Header._read (decoder stub handing back the same raw header)"""
    n = len(pattern)
    r = ObResult(bounds="create session (mode %r) of kinds %s, %d stage(s), %s header; the header it writes is read back by the real "
                        "Header._read/_real_get_contents; sizes/CRCs symbolic" % (mode, pattern or "-", nstages, header_mode))
    eng, st = c08.mk_engine()
    sizes = [eng.sym_int("size%d" % i, 40) for i in range(n)]
    names = c07.session_names(n)

    def harness(e):
        st.pop("compressors", None)
        fp, header, comps = c07.run_session(e, st, pattern, sizes, names, header_mode=header_mode, mode=mode)
        try:
            hdr, start, sig = S.header_items(fp)
        except (ValueError, AttributeError, IndexError):
            return dict(exc="close() wrote no header at all (mode %r)" % mode)
        data_len = e.binop(ast.Sub(), start, 32)
        rec = {}
        if header_mode != "raw":
            comps = st.get("compressors", comps)   # (an empty session creates its only compressor - the header's - at close)
            hcomp = comps[-1]
            raw_items = hcomp.sources[-1] if getattr(hcomp, "sources", None) else []
            rec["blob_at"] = [op[1] for op in fp.ops if op[0] == "write" and isinstance(op[2], S.Blob) and op[2].tag[0] == hcomp.ident][0]
            rec["packsize"] = hcomp.packsize
            e.class_models[("py7zr.compressor", "SevenZipDecompressor")] = lambda e_, coders, packsize, unpacksizes, crc, password=None, blocksize=None: (
                rec.setdefault("asked_packsize", packsize), HeaderDecoder(raw_items, rec))[1]
        try:
            z, fp2 = S.open_for_read(e, hdr, data_len)
        except ModelRaise as ex:
            return dict(exc="reopen:" + ex.name + str(ex.eargs)[:80])
        finally:
            e.class_models.pop(("py7zr.compressor", "SevenZipDecompressor"), None)
        out = []
        hd = z.attrs["header"]
        fobjs = hd.attrs["main_streams"].attrs["unpackinfo"].attrs["folders"] if hd.attrs.get("main_streams") else []
        for af in e.iterate(z.attrs["files"]):
            fi = af.attrs["_file_info"]
            out.append(dict(name=fi.get("filename"), size=fi.get("uncompressed"), digest=fi.get("digest"),
                            folder=(fobjs.index(fi["folder"]) if fi.get("folder") is not None else None),
                            emptystream=fi.get("emptystream"), is_dir=e.models.getattr(e, af, "is_directory")))
        return dict(files=out, comps=comps, rec=rec)

    def post(o):
        if "exc" in o:
            return False
        c = [len(o["files"]) == n]
        if header_mode != "raw":
            rec = o["rec"]
            # the reader looks for the packed header exactly where the writer put it, and asks for exactly its size
            c.append("read_at" in rec and eq(eng, rec["read_at"], rec["blob_at"]) is not False)
            if "read_at" in rec:
                c.append(eq(eng, rec["read_at"], rec["blob_at"]))
                c.append(eq(eng, rec["asked_packsize"], rec["packsize"]))
        comp = o["comps"][0] if o["comps"] else None
        pos = 0
        for i, (k, f) in enumerate(zip(pattern, o["files"])):
            c.append(f["name"] == names[i])
            c.append(f["is_dir"] == (k == "d"))
            c.append(f["emptystream"] == (k == "d"))
            if k in "sfl":
                if comp is None or pos >= len(comp.members):
                    return False
                insize, crc = comp.members[pos]
                pos += 1
                c += [f["folder"] == 0, eq(eng, f["size"], insize), f["digest"] is not None]
                if f["digest"] is not None:
                    c.append(eq(eng, f["digest"], crc))
            else:
                c.append(f["folder"] is None)
        return c

    decide(eng, harness, post, {"size%d" % i: s for i, s in enumerate(sizes)}, r,
           describe=lambda o: o.get("exc") or "%d members read back" % len(o["files"]))
    if header_mode == "raw" and mode == "w":
        _cex(r, "session_roundtrip", lambda w: dict(module="vf.props.c07", func="replay_session", kwargs={
            "pattern": pattern, "sizes": [min(w["size%d" % i], 70000) for i in range(n)], "names": names}),
             signature=lambda w: {"obligation": "session_roundtrip"})
    else:
        _cex(r, "session_roundtrip", lambda w: dict(module="vf.props.c01", func="replay_roundtrip", kwargs={
            "pattern": pattern, "sizes": [min(w["size%d" % i], 70000) for i in range(n)], "names": names, "header_mode": header_mode,
            "mode": mode}), signature=lambda w: {"obligation": "session_roundtrip", "header": header_mode, "mode": mode})
    return r


def replay_roundtrip(pattern, sizes, names, header_mode, mode="w"):
    """write with the real library (default filters, encoded or encrypted header) and read back with it"""
    import os
    import shutil
    import tempfile

    import py7zr
    from py7zr.io import BytesIOFactory

    d = tempfile.mkdtemp(prefix="vf_c01r_")
    try:
        buf = io.BytesIO()
        pw = "pw" if header_mode == "encrypted" else None
        z = py7zr.SevenZipFile(buf, mode, password=pw, header_encryption=(header_mode == "encrypted"))
        if header_mode == "raw":
            z.set_encoded_header_mode(False)
        expect = {}
        for i, k in enumerate(pattern):
            data = bytes((i + j) & 0xFF for j in range(sizes[i]))
            if k == "s":
                z.writestr(data, names[i])
                expect[names[i]] = data
            else:
                p = os.path.join(d, "src%d" % i)
                if k == "d":
                    os.mkdir(p)
                elif k == "l":
                    open(os.path.join(d, "target%d" % i), "wb").write(b"t")   # (py7zr refuses dangling links)
                    os.symlink("target%d" % i, p)
                    expect[names[i]] = b"target%d" % i
                else:
                    open(p, "wb").write(data)
                    expect[names[i]] = data
                z.write(p, names[i])
        z.close()
        try:
            zz = py7zr.SevenZipFile(io.BytesIO(buf.getvalue()), password=pw)
            got_names = zz.getnames()
            fac = BytesIOFactory(10 ** 7)
            zz.extractall(factory=fac)
            got = {k_: v.read() for k_, v in fac.products.items()}
        except Exception as e:  # noqa
            return True, "archive written with %s header cannot be read back: %r" % (header_mode, e)
        if got_names != names or got != expect:
            return True, "read back names %s / sizes %s" % (got_names, {k_: len(v) for k_, v in got.items()})
        return False, "round trip ok"
    finally:
        shutil.rmtree(d, ignore_errors=True)


def units(tier):
    M = "vf.props.c01"
    us = []
    for k in ((1, 2, 3) if tier == "quick" else (1, 2, 3, 4)):
        us.append(Unit("1.aes_compress[%d chunks]" % k, M, "aes_compress", dict(k=k), 1800))
        us.append(Unit("1.aes_decompress[%d chunks]" % k, M, "aes_decompress", dict(k=k), 1800))
    for ns, reads in ([(1, 2), (2, 2), (3, 1)] if tier == "quick" else [(1, 3), (2, 3), (3, 2), (4, 1)]):
        # (measured: 2 stages x 3 reads = 10 484 paths / 19 min, 3 x 2 = 16 065 paths / 24 min; 4 x 2 did not finish in 30 min)
        us.append(Unit("2.compressor_loop[%d stages,%d reads]" % (ns, reads), M, "compressor_loop", dict(nstages=ns, reads=reads), 3000))
    for k, hon, ns in ([(2, True, 1), (2, False, 1), (3, True, 1), (3, False, 1), (2, False, 2), (2, True, 2)] if tier == "quick" else
                       [(2, True, 1), (2, False, 1), (3, True, 1), (3, False, 1), (2, False, 2), (2, True, 2), (4, True, 1)]):
        us.append(Unit("3.decompressor[%d calls,%s,%d stage]" % (k, "honour" if hon else "ignore", ns), M, "decompressor_calls",
                       dict(k=k, honour=hon, nstages=ns), 1800))
    for p in (["s", "ss", "sds", "lsf", ""] if tier == "quick" else ["s", "ss", "sds", "lsf", "", "ssss", "dsd", "fdl"]):
        us.append(Unit("4.session_roundtrip[%s]" % (p or "empty"), M, "session_roundtrip", dict(pattern=p), 900))
    for p in (["s", ""] if tier == "quick" else ["s", "", "sd"]):
        us.append(Unit("4.session_roundtrip[%s,mode x]" % (p or "empty"), M, "session_roundtrip", dict(pattern=p, mode="x"), 900))
    for p in (["s", "sd"] if tier == "quick" else ["s", "sd", "ss", "lsf", ""]):
        us.append(Unit("4.session_roundtrip[%s,encoded header]" % (p or "empty"), M, "session_roundtrip", dict(pattern=p, header_mode="encoded"), 900))
    us += [Unit("5.names." + u.name, u.module, u.func, u.kwargs, u.timeout) for u in c17.units(tier) if u.name.startswith("d.utf16")]
    return us
