"""C12 – read sessions are repeatable and never modify the archive."""
from __future__ import annotations

import ast
import io
import itertools

from vf.common import ObResult, Unit
from vf.harness import extract as X
from vf.harness import readcases as RC
from vf.props import c06
from vf.props.c17 import _cex
from vf.pysym.harness import decide
from vf.pysym.values import ModelRaise

ASSUMPTIONS = c06.ASSUMPTIONS + [
    "decoders are stateful position-tracking stubs cached by the real Folder.get_decompressor; an exhausted decoder that "
    "is asked for more output answers with nothing (the loop state then repeats: reported as a hang after one such step)",
    "call sequences are a concrete shard parameter (every allowed sequence up to the stated length is a shard); "
    "L = getnames+namelist+list+getinfo+needs_password, T = test, Z = testzip, A = extractall(factory), "
    "E = extract([last member], factory), R = reset",
    "path-opened multi-folder archives take the thread-parallel branch: it is run with a sequential thread stand-in "
    "(start() runs the worker to completion) – ONE schedule, which checks what each worker is asked to do; the "
    "interleavings themselves are outside this technique (C13)",
]

OPS = "LTZAER"
DECODING = "AEZ"


def allowed(seq):
    """every extract/extractall that follows an earlier decoding call is preceded by reset()"""
    dirty = False
    for op in seq:
        if op in "AE":
            if dirty:
                return False
            dirty = True
        elif op == "Z":
            dirty = True
        elif op == "R":
            dirty = False
    return True


def sequences(maxlen):
    out = []
    for n in range(1, maxlen + 1):
        for s in itertools.product(OPS, repeat=n):
            s = "".join(s)
            if allowed(s):
                out.append(s)
    return out


def eq(eng, a, b):
    return eng.compare(ast.Eq(), a, b)


def session(pattern, folders, opts, seq, by_path, terminates_only=False):
    """terminates_only: any call sequence (also decoding twice without reset); the only requirement is that every call
    returns or raises (C05) – a decoder that is exhausted and asked again and again is reported as a hang"""
    r = ObResult(bounds="layout %s opened %s; call sequence %s; sizes/CRCs/pack sizes symbolic; one decoder call per member%s"
                        % (RC.shape_name(pattern, folders, opts), "by path" if by_path else "from a stream", seq,
                           "; requirement: every call terminates" if terminates_only else ""))
    eng = RC.mk_engine(unroll=1 if not terminates_only else 4)
    eng.overrides[("py7zr.helpers", "filetime_to_dt")] = lambda e, ft: ("dt", ft)
    sym = RC.symbols(eng, pattern)
    n = len(pattern)
    last_data = max([i for i, k in enumerate(pattern) if k in "fl"], default=None)

    def harness(e):
        entries, layout = RC.build(e, pattern, folders, opts, sym)
        try:
            z, fp, w = X.setup_read(e, entries, layout, name=("arch.7z" if by_path else None), progress="exhausted-aware",
                                    stall_limit=(3 if terminates_only else 1), consume="all-at-once")
        except ModelRaise as ex:
            return dict(exc="open:" + ex.name)
        z.attrs["_block_size"] = 2 ** 41  # packed-stream CRC blocks: one block per stream (block loop: C04 obligation)
        steps = []
        for op in seq:
            w.created, w.decoded, w.read_starts = [], [], []
            for d_ in w.decoders:
                d_.stalls = 0   # "never returns" is a statement about ONE call: repeated finite attempts are not a hang
            st = dict(op=op)
            try:
                if op == "L":
                    st["names"] = e.method(z, "getnames")
                    st["namelist"] = e.method(z, "namelist")
                    st["list"] = [(fi.attrs["filename"], fi.attrs["uncompressed"]) for fi in e.method(z, "list")]
                    st["needs_password"] = e.method(z, "needs_password")
                    st["getinfo"] = [e.models.getattr(e, e.method(z, "getinfo", en["name"]), "filename") for en in entries]
                elif op == "T":
                    st["res"] = e.method(z, "test")
                elif op == "Z":
                    st["res"] = e.method(z, "testzip")
                elif op == "A":
                    e.method(z, "extractall", factory=X.StubFactory(w))
                elif op == "E":
                    e.method(z, "extract", None, [entries[last_data]["name"]] if last_data is not None else [], factory=X.StubFactory(w))
                elif op == "R":
                    e.method(z, "reset")
            except ModelRaise as ex:
                st["exc"] = ex.name + str(ex.eargs)[:60]
            except X.NoProgress as ex:
                st["exc"] = "HANG: " + str(ex)
            st["created"], st["decoded"], st["read_starts"] = w.created, w.decoded, w.read_starts
            steps.append(st)
            if "exc" in st and (not terminates_only or st["exc"].startswith("HANG")):
                break
        return dict(steps=steps, entries=entries, world=w, fp=fp, layout=layout)

    def post(o):
        if "exc" in o:
            return False
        if terminates_only:
            return [not any(s_.get("exc", "").startswith("HANG") for s_ in o["steps"])]
        c = []
        w, entries = o["world"], o["entries"]
        names = [en["name"] for en in entries]
        for st in o["steps"]:
            if "exc" in st:
                return False
            op = st["op"]
            w.created, w.decoded, w.read_starts = st["created"], st["decoded"], st["read_starts"]
            if op == "L":
                c += [st["names"] == names, st["namelist"] == names, st["getinfo"] == names, st["needs_password"] is False]
                c.append([x[0] for x in st["list"]] == names)
                for i, (nm, size) in enumerate(st["list"]):
                    if i in w.member_range:
                        c.append(eq(eng, size, w.member_range[i][2]))
            elif op == "T":
                c.append(st["res"] is (True if opts.get("packcrc") else None) or (st["res"] is True and bool(opts.get("packcrc"))))
            elif op == "Z":
                c.append(st["res"] is None)
                # the integrity test decodes every member completely, from the start of every folder
                for k, total in w.folder_total.items():
                    dec = 0
                    first = None
                    for (kk, off, nb) in st["decoded"]:
                        if kk == k:
                            first = off if first is None else first
                            dec = eng.binop(ast.Add(), dec, nb)
                    c.append(eq(eng, dec, total))
                    if first is not None:
                        c.append(eq(eng, first, 0))
            elif op == "A":
                c += c06.delivery_conditions(eng, w, entries, set(range(n)))
            elif op == "E":
                c += c06.delivery_conditions(eng, w, entries, {last_data} if last_data is not None else set())
        c.append(len(o["fp"].writes) == 0)
        return c

    decide(eng, harness, post, RC.inputs_of(sym, pattern, folders), r,
           max_cex=1, describe=lambda o: o.get("exc") or " ".join("%s%s" % (s["op"], ("!" + s["exc"]) if "exc" in s else "") for s in o["steps"]))
    _cex(r, "session", lambda w_: dict(module="vf.props.c12", func="replay", kwargs=dict(
        pattern=pattern, folders=folders, opts=opts, seq=seq, by_path=by_path, terminates_only=terminates_only,
        witness={k: int(v) for k, v in w_.items() if isinstance(v, int)})), signature=lambda w_: _signature(seq, folders, by_path, pattern))
    return r


def _signature(seq, folders, by_path, pattern):
    # the first decoding call that follows an earlier one without reset in between
    stale = None
    dirty = False
    for i, op in enumerate(seq):
        if op in DECODING:
            if dirty and stale is None:
                stale = op
            dirty = True
        elif op == "R":
            dirty = False
    return {"obligation": "session", "stale_decoder_call": stale, "multi_folder": len(folders) > 1, "by_path": by_path,
            "no_streams": not folders, "has_test": "T" in seq}


def replay(pattern, folders, opts, seq, by_path, witness, terminates_only=False):
    """the same call sequence on the concrete counterpart with the real library, each call under a watchdog"""
    import os
    import signal
    import tempfile

    import py7zr
    from py7zr.io import BytesIOFactory

    img, entries, datas = c06.concrete_case(pattern, folders, opts, witness)
    expect, di = {}, 0
    for en in entries:
        if en["kind"] in "fl":
            expect[en["name"]] = datas[di]
            di += 1
        elif en["kind"] == "e":
            expect[en["name"]] = b""
    names = [e["name"] for e in entries]
    last = [e["name"] for e in entries if e["kind"] in "fl"][-1:] if datas else []
    d = tempfile.mkdtemp(prefix="vf_c12_")

    class Hang(Exception):
        pass

    def alarm(*a):
        raise Hang()

    signal.signal(signal.SIGALRM, alarm)
    try:
        if by_path:
            p = os.path.join(d, "a.7z")
            open(p, "wb").write(img)
            z = py7zr.SevenZipFile(p)
        else:
            z = py7zr.SevenZipFile(io.BytesIO(img))
        for i, op in enumerate(seq):
            signal.alarm(6)
            try:
                if op == "L":
                    if z.getnames() != names or [f.filename for f in z.list()] != names:
                        return True, "step %d %s: listing differs" % (i, op)
                elif op == "T":
                    res = z.test()
                    if res is False:
                        return True, "step %d: test() reports damage on an intact archive" % i
                elif op == "Z":
                    res = z.testzip()
                    if res is not None:
                        return True, "step %d: testzip() reports %r on an intact archive" % (i, res)
                elif op in "AE":
                    fac = BytesIOFactory(10 ** 6)
                    if op == "A":
                        z.extractall(factory=fac)
                        want = expect
                    else:
                        z.extract(targets=last, factory=fac)
                        want = {k: v for k, v in expect.items() if k in last}
                    got = {k: v.read() for k, v in fac.products.items()}
                    if got != want:
                        if not terminates_only:
                            return True, "step %d %s: delivered %s" % (i, op, {k: len(v) for k, v in got.items()})
                elif op == "R":
                    z.reset()
            except Hang:
                return True, "step %d (%s of %s): no return within 6 s" % (i, op, seq)
            except Exception as ex:  # noqa
                if terminates_only:
                    continue  # raising is fine here: the call ended
                return True, "step %d (%s of %s) raised %r" % (i, op, seq, ex)
            finally:
                signal.alarm(0)
        # the integrity verdicts must also be right on a damaged copy, at every point of the same session
        if terminates_only:
            return False, "every call of %s returned or raised" % seq
        if datas and ("Z" in seq or "T" in seq):
            bad = bytearray(img)
            pos = 32 + (8 if opts.get("packpos") else 0) + sum(len(x) for x in datas) - 1
            bad[pos] ^= 0x01
            if by_path:
                p2 = os.path.join(d, "bad.7z")
                open(p2, "wb").write(bytes(bad))
                z2 = py7zr.SevenZipFile(p2)
            else:
                z2 = py7zr.SevenZipFile(io.BytesIO(bytes(bad)))
            for i, op in enumerate(seq):
                signal.alarm(6)
                try:
                    if op == "Z" and z2.testzip() is None:
                        return True, "step %d of %s: testzip() certifies a damaged archive" % (i, seq)
                    elif op == "T" and opts.get("packcrc") and z2.test() is not False:
                        return True, "step %d of %s: test() does not report the damaged packed stream" % (i, seq)
                    elif op == "R":
                        z2.reset()
                    elif op in "AE":
                        try:
                            z2.extractall(factory=BytesIOFactory(10 ** 6))
                        except Exception:  # noqa  damage detected
                            pass
                except Hang:
                    return True, "step %d (%s of %s) on the damaged copy: no return within 6 s" % (i, op, seq)
                except Exception:  # noqa
                    pass
                finally:
                    signal.alarm(0)
        return False, "sequence %s behaves as on a fresh archive" % seq
    finally:
        import shutil

        shutil.rmtree(d, ignore_errors=True)


def units(tier):
    M = "vf.props.c12"
    us = [Unit("open_mode[r]", M, "open_mode", {}, 300)]
    maxlen = 2 if tier == "quick" else 3
    shapes = [("ff", [2], {"packcrc": True}, False), ("ff", [1, 1], {}, False), ("ff", [2], {}, True), ("d", [], {}, False),
              ("ff", [1, 1], {}, True)]   # by path + multi-folder: thread-parallel branch with a sequential thread stand-in
    if tier == "thorough":
        shapes += [("fdf", [1, 1], {"packcrc": True}, False)]
    for (p, f, o, by_path) in shapes:
        seqs = sequences(maxlen if f else 1)
        if tier == "quick" and len(f) > 1:
            # the heart of the property on several folders: decode, reset(), decode again (length 3, otherwise thorough only)
            seqs = seqs + [x + "R" + y for x in DECODING for y in "AE"]
        for s in seqs:
            us.append(Unit("session[%s,%s,%s]" % (RC.shape_name(p, f, o), "path" if by_path else "stream", s), M, "session",
                           dict(pattern=p, folders=f, opts=o, seq=s, by_path=by_path), 900))
    # the real constructor in mode 'r' on a file object whose position is anywhere (shared with C08's append variant)
    for (p, f) in [("f", [1]), ("ff", [1, 1])]:
        us.append(Unit("open_at_position[%s]" % RC.shape_name(p, f, {}), "vf.props.c08", "append_open_position",
                       dict(pattern=p, folders=f, mode="r"), 900))
    return us


def open_mode():
    """mode 'r' never opens the archive file writable: SevenZipFile.__init__ interpreted with builtins.open stubbed"""
    import builtins
    import queue

    import z3

    from vf.harness.session import LayoutFile, Queue
    from vf.pysym.models import Native

    r = ObResult(bounds="SevenZipFile.__init__(<str path>, mode='r'); whether open() raises OSError is symbolic")
    eng = RC.mk_engine()
    fails = z3.Bool("open_fails")
    calls = []

    def fake_open(e, file, mode="r", *a, **k):
        calls.append((file, mode))
        if e.branch(fails):
            raise ModelRaise("OSError", ["EACCES"], cls=OSError)
        return LayoutFile(e, [0] * 32, 0, [])

    eng.models.reg(builtins.open, fake_open)
    eng.models.reg(queue.Queue, lambda e: Queue())
    eng.overrides[("py7zr.py7zr", "SevenZipFile._real_get_contents")] = lambda e, z, password: z.attrs.update(
        afterheader=32, files=[], header=None)
    eng.class_models[("py7zr.py7zr", "Worker")] = lambda e, *a, **k: None

    def harness(e):
        del calls[:]
        try:
            e.new(e.cls("py7zr.py7zr", "SevenZipFile"), "some/archive.7z", "r")
            out = "ok"
        except ModelRaise as ex:
            out = ex.name
        return dict(calls=list(calls), out=out)

    def post(o):
        return [all(m == "rb" for (_, m) in o["calls"]), len(o["calls"]) == 1]

    decide(eng, harness, post, {"open_fails": fails}, r, describe=lambda o: "%s -> %s" % (o["calls"], o["out"]))
    _cex(r, "open_mode", lambda w_: dict(module="vf.props.c12", func="replay_open_mode", kwargs={}),
         signature=lambda w_: {"obligation": "open_mode"})
    return r


def replay_open_mode():
    import builtins
    import os
    import tempfile

    import py7zr

    d = tempfile.mkdtemp(prefix="vf_c12m_")
    p = os.path.join(d, "a.7z")
    with py7zr.SevenZipFile(p, "w") as z:
        z.writestr(b"x", "x")
    modes = []
    real_open = builtins.open

    def spy(f, mode="r", *a, **k):
        if str(f) == p:
            modes.append(mode)
        return real_open(f, mode, *a, **k)

    builtins.open = spy
    try:
        with py7zr.SevenZipFile(p, "r") as z:
            z.getnames()
    finally:
        builtins.open = real_open
        import shutil

        shutil.rmtree(d, ignore_errors=True)
    return (modes != ["rb"]), "modes used to open the archive in mode 'r': %s" % modes
