"""C02 – directory tree round trip with metadata: decided for the *metadata encoding* the tree round trip rests on
(attribute word <-> kind/permissions, FILETIME <-> float mtime); trees, syscalls and the filesystem walk are outside."""
from __future__ import annotations

import ast
import stat

import z3

from vf.common import ObResult, Unit
from vf.props.c17 import _cex
from vf.pysym import sfloat
from vf.pysym.engine import Engine
from vf.pysym.harness import decide
from vf.pysym.models import Native
from vf.pysym.values import ModelRaise, SObj

PZ, HP = "py7zr.py7zr", "py7zr.helpers"

ASSUMPTIONS = [
    "the source path is a stub object whose lstat()/stat() return a symbolic st_mode (file type REG, DIR or LNK; all 12 "
    "permission bits symbolic) and whose is_symlink/is_dir/is_file answer as pathlib does (from those modes)",
    "IEEE-754 double arithmetic is modelled per binade in linear real/integer arithmetic (vf/pysym/sfloat.py): "
    "every operation = exact result + round-to-nearest with nondeterministic ties (over-approximation)",
    "the filesystem walk, symlink creation/reading, os.utime/chmod and their rounding are outside",
]


class _Stat(Native):
    def __init__(self, mode, t):
        self.st_mode, self.st_ctime, self.st_mtime, self.st_atime, self.st_size = mode, t, t, t, 0


class _Path(Native):
    import pathlib as _pl

    isa = (_pl.Path,)

    def __init__(self, lmode, tmode, t):
        self.lmode, self.tmode, self.t = lmode, tmode, t

    def as_posix(self, eng):
        return "src/name"

    def lstat(self, eng):
        return _Stat(self.lmode, self.t)

    def stat(self, eng):
        return _Stat(self._follow(eng), self.t)

    def _follow(self, eng):
        return self.tmode if eng.branch(self._fmt(eng, self.lmode, stat.S_IFLNK)) else self.lmode

    @staticmethod
    def _fmt(eng, m, v):
        return eng.compare(ast.Eq(), eng.binop(ast.BitAnd(), m, 0o170000), v)

    def is_symlink(self, eng):
        return eng.branch(self._fmt(eng, self.lmode, stat.S_IFLNK))

    def is_dir(self, eng):
        return eng.branch(self._fmt(eng, self._follow(eng), stat.S_IFDIR))

    def is_file(self, eng):
        return eng.branch(self._fmt(eng, self._follow(eng), stat.S_IFREG))


def attributes():
    r = ObResult(bounds="st_mode of the entry and (for links) of its target: type in {REG, DIR, LNK} x all 12 permission "
                        "bits symbolic; dereference symbolic")
    eng = Engine([PZ, HP], intmode="bv", width=64)
    eng.overrides[(HP, "ArchiveTimestamp.from_datetime")] = lambda e, v: 0
    lmode, tmode = eng.sym_int("lmode", 16), eng.sym_int("tmode", 16)
    deref = z3.Bool("dereference")

    def typ(m, kinds):
        f = m & 0o170000
        return z3.Or(*[f == k for k in kinds])

    def harness(e):
        e.assume(typ(lmode, [stat.S_IFREG, stat.S_IFDIR, stat.S_IFLNK]))
        e.assume(typ(tmode, [stat.S_IFREG, stat.S_IFDIR]))
        d = e.branch(deref)
        cls = e.cls(PZ, "SevenZipFile")
        fi = e.call_function(cls.find("_make_file_info")[1], [_Path(lmode, tmode, 0), "arc/name", d])
        af = e.new(e.cls(PZ, "ArchiveFile"), 0, fi)
        g = lambda a: e.models.getattr(e, af, a)
        return dict(deref=d, is_dir=g("is_directory"), is_link=g("is_symlink"), mode=g("posix_mode"),
                    emptystream=fi.get("emptystream"), filename=fi.get("filename"), size_key="uncompressed" in fi)

    def post(o):
        islnk = (lmode & 0o170000) == stat.S_IFLNK
        eff = z3.If(z3.And(islnk, z3.BoolVal(o["deref"])), tmode, lmode)
        effdir = (eff & 0o170000) == stat.S_IFDIR
        keeps_link = z3.And(islnk, z3.Not(z3.BoolVal(o["deref"])))
        b = lambda v: v if z3.is_expr(v) else z3.BoolVal(bool(v))
        return [o["filename"] == "arc/name",
                b(o["is_dir"]) == z3.And(effdir, z3.Not(keeps_link)),
                b(o["is_link"]) == keeps_link,
                b(o["emptystream"]) == z3.And(effdir, z3.Not(keeps_link)),
                o["mode"] is not None and eng.lift(o["mode"]) == (eff & 0o7777)]

    decide(eng, harness, post, {"lmode": lmode, "tmode": tmode, "dereference": deref}, r,
           describe=lambda o: "dir=%s link=%s" % (o["is_dir"], o["is_link"]))
    _cex(r, "attributes", lambda w: dict(module="vf.props.c02", func="replay_attributes", kwargs=dict(
        lmode=int(w["lmode"]), tmode=int(w["tmode"]), deref=bool(w["dereference"]))), signature=lambda w: {"obligation": "attributes"})
    return r


def replay_attributes(lmode, tmode, deref):
    import os
    import tempfile

    import py7zr
    from py7zr.py7zr import ArchiveFile

    d = tempfile.mkdtemp(prefix="vf_c02_")
    try:
        def mk(p, mode):
            if stat.S_ISDIR(mode):
                os.mkdir(p)
            else:
                open(p, "wb").write(b"x")
            os.chmod(p, stat.S_IMODE(mode))

        import pathlib

        if stat.S_ISLNK(lmode):
            mk(os.path.join(d, "target"), tmode)
            os.symlink("target", os.path.join(d, "entry"))
        else:
            mk(os.path.join(d, "entry"), lmode)
        fi = py7zr.SevenZipFile._make_file_info(pathlib.Path(d, "entry"), "arc/name", deref)
        af = ArchiveFile(0, fi)
        eff = tmode if (stat.S_ISLNK(lmode) and deref) else lmode
        keeps = stat.S_ISLNK(lmode) and not deref
        want_dir = stat.S_ISDIR(eff) and not keeps
        ok = af.is_directory == want_dir and af.is_symlink == keeps and (keeps or af.posix_mode == stat.S_IMODE(eff))
        return (not ok), "is_directory=%s is_symlink=%s posix_mode=%o (entry %o, target %o, deref=%s)" % (
            af.is_directory, af.is_symlink, af.posix_mode or 0, lmode, tmode, deref)
    finally:
        import shutil

        for root, dirs, files in os.walk(d):
            for n in dirs:
                os.chmod(os.path.join(root, n), 0o700)
        shutil.rmtree(d, ignore_errors=True)


def mtime_roundtrip(e2):
    lo, hi = 2 ** e2, min(2 ** (e2 + 1), 4102444800)
    r = ObResult(bounds="every double mtime in [%d, %d] (one binade of 1970..2100): from_datetime then totimestamp, the two "
                        "float expressions taken from the AST, tolerance 5 microseconds" % (lo, hi))
    eng = Engine([HP], intmode="int", solver_timeout_ms=300000)

    def harness(e):
        v = sfloat.declare(e, "mtime", lo, hi)
        cls = e.cls(HP, "ArchiveTimestamp")
        ft = e.call_function(cls.find("from_datetime")[1], [v])
        back = e.call_function(cls.find("totimestamp")[1], [ft])
        return dict(v=v, ft=ft, back=back)

    def post(o):
        err = o["back"] - o["v"]
        b = z3.RealVal("0.000005")
        return [z3.And(err <= b, err >= -b), o["ft"] >= 0, o["ft"] < 2 ** 64]

    decide(eng, harness, post, {}, r, describe=lambda o: "filetime and back")
    _cex(r, "mtime", lambda w: dict(module="vf.props.c02", func="replay_mtime", kwargs={}), signature=lambda w: {"obligation": "mtime"})
    return r


def replay_mtime():
    import random

    from py7zr.helpers import ArchiveTimestamp

    rnd = random.Random(7)
    worst = 0.0
    for _ in range(200000):
        v = rnd.uniform(1, 4102444800)
        worst = max(worst, abs(ArchiveTimestamp.from_datetime(v).totimestamp() - v))
    return worst > 5e-6, "worst error over 200000 random mtimes: %.3g s" % worst


def units(tier):
    M = "vf.props.c02"
    return [Unit("a.attributes", M, "attributes", {}, 900)] + [
        Unit("b.mtime_roundtrip[2^%d..2^%d]" % (e2, e2 + 1), M, "mtime_roundtrip", dict(e2=e2), 900) for e2 in range(0, 32)]
