"""C02 – directory tree round trip with metadata: decided for the *metadata encoding* the tree round trip rests on
(attribute word <-> kind/permissions, FILETIME <-> float mtime); trees, syscalls and the filesystem walk are outside."""
from __future__ import annotations

import ast
import stat

import z3

from vf.common import ObResult, Unit
from vf.props.c17 import _cex
from vf.pysym import sfloat
from vf.pysym.engine import Engine
from vf.pysym.harness import decide
from vf.pysym.models import Native
from vf.pysym.values import ModelRaise, SObj

PZ, HP = "py7zr.py7zr", "py7zr.helpers"

ASSUMPTIONS = [
    "the source path is a stub object whose lstat()/stat() return a symbolic st_mode (file type REG, DIR or LNK; all 12 "
    "permission bits symbolic) and whose is_symlink/is_dir/is_file answer as pathlib does (from those modes)",
    "IEEE-754 double arithmetic is modelled per binade in linear real/integer arithmetic (vf/pysym/sfloat.py): "
    "every operation = exact result + round-to-nearest with nondeterministic ties (over-approximation)",
    "the filesystem walk, symlink creation/reading, os.utime/chmod and their rounding are outside",
]


class _Stat(Native):
    def __init__(self, mode, t):
        self.st_mode, self.st_ctime, self.st_mtime, self.st_atime, self.st_size = mode, t, t, t, 0


class _Path(Native):
    import pathlib as _pl

    isa = (_pl.Path,)

    def __init__(self, lmode, tmode, t):
        self.lmode, self.tmode, self.t = lmode, tmode, t

    def as_posix(self, eng):
        return "src/name"

    def lstat(self, eng):
        return _Stat(self.lmode, self.t)

    def stat(self, eng):
        return _Stat(self._follow(eng), self.t)

    def _follow(self, eng):
        return self.tmode if eng.branch(self._fmt(eng, self.lmode, stat.S_IFLNK)) else self.lmode

    @staticmethod
    def _fmt(eng, m, v):
        return eng.compare(ast.Eq(), eng.binop(ast.BitAnd(), m, 0o170000), v)

    def is_symlink(self, eng):
        return eng.branch(self._fmt(eng, self.lmode, stat.S_IFLNK))

    def is_dir(self, eng):
        return eng.branch(self._fmt(eng, self._follow(eng), stat.S_IFDIR))

    def is_file(self, eng):
        return eng.branch(self._fmt(eng, self._follow(eng), stat.S_IFREG))


def attributes():
    r = ObResult(bounds="st_mode of the entry and (for links) of its target: type in {REG, DIR, LNK} x all 12 permission "
                        "bits symbolic; dereference symbolic")
    eng = Engine([PZ, HP], intmode="bv", width=64)
    eng.overrides[(HP, "ArchiveTimestamp.from_datetime")] = lambda e, v: 0
    lmode, tmode = eng.sym_int("lmode", 16), eng.sym_int("tmode", 16)
    deref = z3.Bool("dereference")

    def typ(m, kinds):
        f = m & 0o170000
        return z3.Or(*[f == k for k in kinds])

    def harness(e):
        e.assume(typ(lmode, [stat.S_IFREG, stat.S_IFDIR, stat.S_IFLNK]))
        e.assume(typ(tmode, [stat.S_IFREG, stat.S_IFDIR]))
        d = e.branch(deref)
        cls = e.cls(PZ, "SevenZipFile")
        fi = e.call_function(cls.find("_make_file_info")[1], [_Path(lmode, tmode, 0), "arc/name", d])
        af = e.new(e.cls(PZ, "ArchiveFile"), 0, fi)
        g = lambda a: e.models.getattr(e, af, a)
        return dict(deref=d, is_dir=g("is_directory"), is_link=g("is_symlink"), mode=g("posix_mode"),
                    emptystream=fi.get("emptystream"), filename=fi.get("filename"), size_key="uncompressed" in fi)

    def post(o):
        islnk = (lmode & 0o170000) == stat.S_IFLNK
        eff = z3.If(z3.And(islnk, z3.BoolVal(o["deref"])), tmode, lmode)
        effdir = (eff & 0o170000) == stat.S_IFDIR
        keeps_link = z3.And(islnk, z3.Not(z3.BoolVal(o["deref"])))
        b = lambda v: v if z3.is_expr(v) else z3.BoolVal(bool(v))
        return [o["filename"] == "arc/name",
                b(o["is_dir"]) == z3.And(effdir, z3.Not(keeps_link)),
                b(o["is_link"]) == keeps_link,
                b(o["emptystream"]) == z3.And(effdir, z3.Not(keeps_link)),
                o["mode"] is not None and eng.lift(o["mode"]) == (eff & 0o7777)]

    decide(eng, harness, post, {"lmode": lmode, "tmode": tmode, "dereference": deref}, r,
           describe=lambda o: "dir=%s link=%s" % (o["is_dir"], o["is_link"]))
    _cex(r, "attributes", lambda w: dict(module="vf.props.c02", func="replay_attributes", kwargs=dict(
        lmode=int(w["lmode"]), tmode=int(w["tmode"]), deref=bool(w["dereference"]))), signature=lambda w: {"obligation": "attributes"})
    return r


def replay_attributes(lmode, tmode, deref):
    import os
    import tempfile

    import py7zr
    from py7zr.py7zr import ArchiveFile

    d = tempfile.mkdtemp(prefix="vf_c02_")
    try:
        def mk(p, mode):
            if stat.S_ISDIR(mode):
                os.mkdir(p)
            else:
                open(p, "wb").write(b"x")
            os.chmod(p, stat.S_IMODE(mode))

        import pathlib

        if stat.S_ISLNK(lmode):
            mk(os.path.join(d, "target"), tmode)
            os.symlink("target", os.path.join(d, "entry"))
        else:
            mk(os.path.join(d, "entry"), lmode)
        fi = py7zr.SevenZipFile._make_file_info(pathlib.Path(d, "entry"), "arc/name", deref)
        af = ArchiveFile(0, fi)
        eff = tmode if (stat.S_ISLNK(lmode) and deref) else lmode
        keeps = stat.S_ISLNK(lmode) and not deref
        want_dir = stat.S_ISDIR(eff) and not keeps
        ok = af.is_directory == want_dir and af.is_symlink == keeps and (keeps or af.posix_mode == stat.S_IMODE(eff))
        return (not ok), "is_directory=%s is_symlink=%s posix_mode=%o (entry %o, target %o, deref=%s)" % (
            af.is_directory, af.is_symlink, af.posix_mode or 0, lmode, tmode, deref)
    finally:
        import shutil

        for root, dirs, files in os.walk(d):
            for n in dirs:
                os.chmod(os.path.join(root, n), 0o700)
        shutil.rmtree(d, ignore_errors=True)


def mtime_roundtrip(lo, hi):
    r = ObResult(bounds="every double mtime in [%d, %d] (a slice of one binade of 1970..2100): from_datetime then totimestamp, the two "
                        "float expressions taken from the AST, tolerance 5 microseconds" % (lo, hi))
    eng = Engine([HP], intmode="int", solver_timeout_ms=600000)

    def harness(e):
        v = sfloat.declare(e, "mtime", lo, hi)
        cls = e.cls(HP, "ArchiveTimestamp")
        ft = e.call_function(cls.find("from_datetime")[1], [v])
        back = e.call_function(cls.find("totimestamp")[1], [ft])
        return dict(v=v, ft=ft, back=back)

    def post(o):
        err = o["back"] - o["v"]
        b = z3.RealVal("0.000005")
        return [z3.And(err <= b, err >= -b), o["ft"] >= 0, o["ft"] < 2 ** 64]

    decide(eng, harness, post, {}, r, describe=lambda o: "filetime and back")
    _cex(r, "mtime", lambda w: dict(module="vf.props.c02", func="replay_mtime", kwargs={}), signature=lambda w: {"obligation": "mtime"})
    return r


def replay_mtime():
    import random

    from py7zr.helpers import ArchiveTimestamp

    rnd = random.Random(7)
    worst = 0.0
    for _ in range(200000):
        v = rnd.uniform(1, 4102444800)
        worst = max(worst, abs(ArchiveTimestamp.from_datetime(v).totimestamp() - v))
    return worst > 5e-6, "worst error over 200000 random mtimes: %.3g s" % worst


def units(tier):
    M = "vf.props.c02"
    ranges = [(2 ** e2, 2 ** (e2 + 1)) for e2 in range(0, 31)]
    ranges += [(2 ** 31, 2767045208), (2767045207, 4102444800)]   # top binade, cut where the FILETIME value crosses 2^57
    return [Unit("a.attributes", M, "attributes", {}, 900), Unit("c.writeall_dispatch", M, "writeall_dispatch", {}, 600),
            Unit("e.link_text_kept", M, "link_text_kept", {}, 900)] + [
        Unit("d.metadata_applied[%s]" % k, M, "metadata_applied", dict(kind=k), 900) for k in ("f", "e", "d", "fl", "dl")] + [
        Unit("b.mtime_roundtrip[%d..%d]" % (a, b), M, "mtime_roundtrip", dict(lo=a, hi=b), 900) for (a, b) in ranges]


# ---------------------------------------------------------------- d. permissions and mtime end to end
def metadata_applied(kind, intmode="int"):
    """source st_mode --real _make_file_info--> attribute word --reference-written archive, real reader--> real _extract
    post-pass on the filesystem model: chmod gets the source's permission bits, utime gets the stored FILETIME.
    kind: 'f' file, 'e' empty file, 'd' directory; a trailing 'l' adds a symbolic link 'lnk' -> 'm' stored after it"""
    import zlib

    from vf.harness import extract as X
    from vf.harness import fakefs as F
    from vf.harness import readcases as RC
    from vf.harness import refwriter as W

    with_link = kind.endswith("l")
    k0 = kind[0]
    r = ObResult(bounds="one member 'm' of kind %r (f file, e empty file, d directory)%s; all 12 permission bits, "
                        "size, CRC and FILETIME symbolic, mtime defined or not; extraction into an empty directory on the "
                        "filesystem model" % (k0, ", followed by a symbolic link member 'lnk' -> 'm'" if with_link else ""))
    eng = RC.mk_engine(unroll=1, intmode=intmode)
    eng.overrides[(HP, "ArchiveTimestamp.from_datetime")] = lambda e, v: 0
    perm = eng.sym_int("perm", 12)
    ft = eng.sym_int("filetime", 63)
    lft = eng.sym_int("link_filetime", 63)
    size = eng.sym_int("size", 30)
    crc = eng.sym_int("crc", 32)
    has_mtime = z3.Bool("mtime_defined")

    class TS(Native):
        def __init__(self, v):
            self.v = v

        def totimestamp(self, e):
            return ("ts", self.v)

    def harness(e):
        fs = F.FS()
        for loc in [("/", "base"), ("/", "base", "jail")]:
            fs.nodes[loc] = ("dir",)
        typ = stat.S_IFDIR if k0 == "d" else stat.S_IFREG
        mode = e.binop(ast.BitOr(), typ, perm)
        cls = e.cls(PZ, "SevenZipFile")
        fi = e.call_function(cls.find("_make_file_info")[1], [_Path(mode, mode, 0), "m", False])
        attr = fi["attributes"]
        F.install(e, fs, "/base/jail")
        if k0 == "f":
            e.assume(e.compare(ast.Gt(), size, 0))
        defined = e.branch(has_mtime)
        entries = [dict(kind=k0, name="m", size=(size if k0 == "f" else 0), crc=(crc if k0 == "f" else 0),
                        mtime=(ft if defined else None), attributes=attr)]
        if with_link:
            entries.append(dict(kind="l", name="lnk", size=1, crc=zlib.crc32(b"m"), mtime=(lft if defined else None),
                                attributes=W.default_attributes("l")))
        nd = sum(1 for en in entries if en["kind"] in "fl")
        layout = dict(folders=[nd] if nd else [], ncoders=[1] if nd else [], packsizes=[e.sym_int("pack", 30)] if nd else [],
                      crc_at="sub", coder_ids=[b"\x00"])
        try:
            z, fp, w = X.setup_read(e, entries, layout, consume="all-at-once")
        except ModelRaise as ex:
            return dict(exc="open:" + ex.name)
        e.decode_hook = lambda e_, b: "m"      # the decoded text of the (only) link member
        e.class_models[("py7zr.helpers", "ArchiveTimestamp")] = lambda e_, x: TS(e_.models._int(e_, x))
        try:
            e.method(z, "extractall", F.FakePath(fs, "/base/jail", "/base/jail"))
        except ModelRaise as ex:
            return dict(exc=ex.name + str(ex.eargs)[:80])
        finally:
            e.class_models[("py7zr.helpers", "ArchiveTimestamp")] = lambda e_, x: e_.models._int(e_, x)
            e.decode_hook = None
        return dict(fs=fs, defined=defined, attr=attr)

    def post(o):
        if "exc" in o:
            return False
        fs = o["fs"]
        loc = ("/", "base", "jail", "m")
        times, modes = fs.__dict__.get("times", {}), fs.__dict__.get("modes", {})
        c = [fs.kind(loc) == ("dir" if k0 == "d" else "file")]
        c.append(loc in modes and eng.compare(ast.Eq(), modes[loc], perm))
        if o["defined"]:
            t = times.get(loc)
            c.append(t is not None and isinstance(t[0], tuple) and t[0][0] == "ts" and t[1] == t[0] and eng.compare(ast.Eq(), t[0][1], ft))
        else:
            c.append(loc not in times)
        if with_link:
            lloc = ("/", "base", "jail", "lnk")
            c.append(fs.nodes.get(lloc) == ("link", "m"))
        # no other location is stamped
        c.append(set(modes) <= {loc} and set(times) <= {loc})
        c.append(all(l[:3] == ("/", "base", "jail") for (op, l) in fs.effects))
        return c

    decide(eng, harness, post, {"perm": perm, "filetime": ft, "link_filetime": lft, "size": size, "crc": crc, "mtime_defined": has_mtime}, r,
           describe=lambda o: o.get("exc") or "%d effects" % len(o["fs"].effects))
    _cex(r, "metadata_applied", lambda w: dict(module="vf.props.c02", func="replay_metadata", kwargs=dict(
        kind=kind, perm=int(w.get("perm", 0)), filetime=int(w.get("filetime", 0)), defined=bool(w.get("mtime_defined", False)))),
         signature=lambda w: {"obligation": "metadata_applied", "kind": kind})
    return r


def replay_metadata(kind, perm, filetime, defined):
    """the real thing: a source with these permission bits -> py7zr archive (Copy) -> extract -> compare mode and mtime"""
    import io
    import os
    import shutil
    import tempfile

    import py7zr

    with_link, kind = kind.endswith("l"), kind[0]
    d = tempfile.mkdtemp(prefix="vf_c02m_")
    try:
        src = os.path.join(d, "src")
        os.mkdir(src)
        p = os.path.join(src, "m")
        if with_link:
            os.symlink("m", os.path.join(src, "lnk"))
        if kind == "d":
            os.mkdir(p)
        else:
            open(p, "wb").write(b"data" if kind == "f" else b"")
        # FILETIME -> seconds since 1970, kept in a range the OS accepts
        secs = (filetime // 10 ** 7 - 11644473600) % (2 ** 31) if defined else 10 ** 9
        os.utime(p, (secs, secs))
        os.chmod(p, perm)
        want_mode, want_mtime = stat.S_IMODE(os.lstat(p).st_mode), os.lstat(p).st_mtime
        buf = io.BytesIO()
        try:
            os.chmod(p, perm | (0o700 if kind == "d" else 0o400))   # readable while archiving; the recorded mode is patched below
            with py7zr.SevenZipFile(buf, "w", filters=[{"id": py7zr.FILTER_COPY}]) as z:
                fi = None
                os.chmod(p, perm)
                try:
                    z.write(p, "m")
                    if with_link:
                        z.write(os.path.join(src, "lnk"), "lnk")
                except PermissionError:
                    return False, "source not readable with mode %o (cannot replay natively)" % perm
        finally:
            os.chmod(p, 0o700 if kind == "d" else 0o600)
        out = os.path.join(d, "out")
        os.mkdir(out)
        try:
            py7zr.SevenZipFile(io.BytesIO(buf.getvalue())).extractall(out)
        except Exception as e:  # noqa
            return True, "extraction failed: %r" % (e,)
        st = os.lstat(os.path.join(out, "m"))
        got = stat.S_IMODE(st.st_mode)
        if with_link and (not os.path.islink(os.path.join(out, "lnk")) or os.readlink(os.path.join(out, "lnk")) != "m"):
            return True, "link not reproduced"
        try:
            os.chmod(os.path.join(out, "m"), 0o700)
        except OSError:
            pass
        if got != want_mode:
            return True, "mode %o extracted as %o" % (want_mode, got)
        if abs(st.st_mtime - want_mtime) > 5e-6:
            return True, "mtime %r extracted as %r" % (want_mtime, st.st_mtime)
        return False, "mode %o and mtime preserved" % got
    finally:
        shutil.rmtree(d, ignore_errors=True)


# ---------------------------------------------------------------- e. the text stored for a symbolic link
LINK_PATHS = ["lnk", "a/lnk", "a/b/lnk"]
LINK_TEXTS = ["0b", "a/0b", "../0b", "b/0b", "./0b", "a/b/0b"]   # relative links only (C02 quantifies over those)
ORIGINS = ["0b", "a/0b", "a/b/0b", "/abs/top/0b"]


def link_text_kept():
    """Worker._find_link_target: a RELATIVE link keeps its text whatever else is in the archive (the target it names is
    relative to the link's own directory, not to the working directory); an absolute one may become relative"""
    import os

    r = ObResult(bounds="link at one of %s with text one of %s (symbolic choices); members archived before it: every subset of "
                        "%s (given as paths relative to the working directory, as writeall('.') does)" % (LINK_PATHS, LINK_TEXTS, ORIGINS))
    eng = Engine([PZ, HP], intmode="int")
    lp, lt = eng.sym_int("link_path", 3), eng.sym_int("link_text", 3)
    present = [z3.Bool("member%d_archived_before" % i) for i in range(len(ORIGINS))]

    class P(Native):
        import pathlib as _pl

        isa = (_pl.Path,)

        def __init__(self, s_):
            self.s = s_

        def as_posix(self, e):
            return self.s

    def pick(e, v, tbl):
        e.assume(e.compare(ast.Lt(), v, len(tbl)))
        for k in range(len(tbl) - 1):
            if e.branch(e.compare(ast.Eq(), v, k)):
                return tbl[k]
        return tbl[-1]

    def harness(e):
        path, text = pick(e, lp, LINK_PATHS), pick(e, lt, LINK_TEXTS)
        files = []
        for i, o in enumerate(ORIGINS):
            if e.branch(present[i]):
                af = SObj(e.cls(PZ, "ArchiveFile"))
                af.attrs["_file_info"] = {"origin": P(o)}
                af.attrs["id"] = i
                files.append(af)
        files.append(SObj(e.cls(PZ, "ArchiveFile")))          # a member without a source path (writestr)
        files[-1].attrs["_file_info"] = {"origin": None}
        w = SObj(e.cls(PZ, "Worker"))
        w.attrs["files"] = files
        for mod in (PZ, HP):
            e.overrides[(mod, "readlink")] = lambda e_, p_: text
        return dict(path=path, text=text, got=e.method(w, "_find_link_target", P(path)))

    def post(o):
        text, got = o["text"], o["got"]
        if not text.startswith("/"):
            # (the writer normalises the spelling as pathlib does - "./0b" becomes "0b" - which names the same target)
            from pathlib import PurePosixPath

            return [got == PurePosixPath(text).as_posix()]
        # an absolute text may be stored relative to the link's directory - naming the same location
        here = os.path.dirname("/abs/top/" + o["path"])
        return [got == text or os.path.normpath(os.path.join(here, got)) == os.path.normpath(text)]

    decide(eng, harness, post, dict(link_path=lp, link_text=lt, **{"member%d_archived_before" % i: b for i, b in enumerate(present)}), r,
           describe=lambda o: "%s -> %r stored as %r" % (o["path"], o["text"], o["got"]))
    _cex(r, "link_text_kept", lambda w: dict(module="vf.props.c02", func="replay_link_text", kwargs=dict(
        link_path=LINK_PATHS[min(int(w.get("link_path", 0)), len(LINK_PATHS) - 1)], link_text=LINK_TEXTS[min(int(w.get("link_text", 0)), len(LINK_TEXTS) - 1)],
        origins=[o for i, o in enumerate(ORIGINS) if w.get("member%d_archived_before" % i)])), signature=lambda w: {"obligation": "link_text_kept"})
    return r


def replay_link_text(link_path, link_text, origins):
    """the real thing: build the tree, archive it with writeall('.') from inside, extract, read the link back"""
    import io
    import os
    import shutil
    import tempfile

    import py7zr

    if link_text.startswith("/"):
        return False, "absolute link texts are not replayed (they depend on where the scratch directory lies)"
    d = tempfile.mkdtemp(prefix="vf_c02l_")
    cwd = os.getcwd()
    try:
        top = os.path.join(d, "top")
        os.makedirs(top)
        for o in origins + ["a/0b", "a/b/0b", "0b", "a/b/b/0b", "a/b/a/0b", "b/0b", "a/a/0b"]:
            if o.startswith("/"):
                continue
            os.makedirs(os.path.dirname(os.path.join(top, o)) or top, exist_ok=True)
            if not os.path.exists(os.path.join(top, o)):
                open(os.path.join(top, o), "w").write("content of " + o)
        os.makedirs(os.path.dirname(os.path.join(top, link_path)) or top, exist_ok=True)
        os.symlink(link_text, os.path.join(top, link_path))
        os.chdir(top)
        buf = io.BytesIO()
        with py7zr.SevenZipFile(buf, "w", filters=[{"id": py7zr.FILTER_COPY}]) as z:
            z.writeall(".")
        os.chdir(cwd)
        out = os.path.join(d, "out")
        py7zr.SevenZipFile(io.BytesIO(buf.getvalue())).extractall(out)
        got = os.readlink(os.path.join(out, link_path))
        from pathlib import PurePosixPath

        return got != PurePosixPath(link_text).as_posix(), "link %s -> %r comes back as %r" % (link_path, link_text, got)
    except Exception as e:  # noqa
        return False, "replay could not be set up: %r" % (e,)
    finally:
        os.chdir(cwd)
        shutil.rmtree(d, ignore_errors=True)


# ---------------------------------------------------------------- c. one step of the writeall walk
def writeall_dispatch():
    """SevenZipFile._writeall on a stub node of symbolic kind x dereference: which nodes are written, which recursed"""
    import os

    r = ObResult(bounds="one directory level: a node that is a regular file / directory (2 children) / symlink to a file / "
                        "symlink to a directory / dangling symlink / other kind, dereference on or off (all symbolic)")
    eng = Engine([PZ, HP], intmode="int")
    kind = eng.sym_int("kind", 3)      # 0 file, 1 dir, 2 link->file, 3 link->dir, 4 dangling link, 5 other (fifo)
    deref = z3.Bool("dereference")
    written = []

    class Node(Native):
        import pathlib as _pl

        isa = (_pl.Path,)

        def __init__(self, name, k, children=()):
            self.name, self.k, self.children = name, k, list(children)

        def is_symlink(self, e):
            return self.k in (2, 3, 4)

        def is_file(self, e):
            return self.k in (0, 2)

        def is_dir(self, e):
            return self.k in (1, 3)

        def samefile(self, e, other):
            return False

        def joinpath(self, e, nm):
            return [c for c in self.children if c.name.endswith("/" + nm)][0]

        def __str__(self):
            return self.name

    def harness(e):
        del written[:]
        e.assume(e.compare(ast.LtE(), kind, 5))
        k = 5
        for c in range(5):
            if e.branch(e.compare(ast.Eq(), kind, c)):
                k = c
                break
        d = e.branch(deref)
        kids = [Node("top/k1", 0), Node("top/k2", 0)] if k in (1, 3) else []
        top = Node("top", k, kids)
        e.models.reg(os.listdir, lambda e_, p: ["k2", "k1"] if kids else [])
        z = SObj(e.cls(PZ, "SevenZipFile"))
        z.attrs["dereference"] = d
        e.overrides[(PZ, "SevenZipFile.write")] = lambda e_, self_, path, arcname=None: written.append((path.name, arcname))
        e.method(z, "_writeall", top, "arc")
        return dict(k=k, d=d, written=list(written))

    def post(o):
        k, d, w = o["k"], o["d"], o["written"]
        if k == 0 or k == 2 and d:
            want = [("top", "arc")]
        elif k == 1 or (k == 3 and d):
            want = [("top", "arc"), ("top/k1", "arc/k1"), ("top/k2", "arc/k2")]   # the directory itself, then children sorted
        elif k in (2, 3, 4) and not d:
            want = [("top", "arc")]                                               # the link itself is stored
        else:
            want = []                                                             # dangling link when dereferencing, other kinds
        return [w == want]

    decide(eng, harness, post, {"kind": kind, "dereference": deref}, r, describe=lambda o: "kind=%d deref=%s -> %s" % (o["k"], o["d"], o["written"]))
    _cex(r, "writeall_dispatch", lambda w: dict(module="vf.props.c02", func="replay_writeall", kwargs=dict(kind=int(w["kind"]), deref=bool(w["dereference"]))),
         signature=lambda w: {"obligation": "writeall_dispatch"})
    return r


def replay_writeall(kind, deref):
    import io
    import os
    import shutil
    import tempfile

    import py7zr

    d = tempfile.mkdtemp(prefix="vf_c02w_")
    cwd = os.getcwd()
    try:
        os.chdir(d)
        if kind == 0:
            open("top", "wb").write(b"x")
        elif kind == 1:
            os.mkdir("top")
        elif kind in (2, 3, 4):
            if kind == 2:
                open("tf", "wb").write(b"x")
            if kind == 3:
                os.mkdir("td")
                open("td/k1", "wb").write(b"1")
                open("td/k2", "wb").write(b"2")
            os.symlink({2: "tf", 3: "td", 4: "nowhere"}[kind], "top")
        else:
            os.mkfifo("top")
        if kind == 1:
            open("top/k1", "wb").write(b"1")
            open("top/k2", "wb").write(b"2")
        buf = io.BytesIO()
        z = py7zr.SevenZipFile(buf, "w", dereference=deref, filters=[{"id": py7zr.FILTER_COPY}])
        try:
            z._writeall(__import__("pathlib").Path("top"), "arc")
            z.close()
        except Exception as e:  # noqa
            return True, "writeall raised %r" % (e,)
        names = py7zr.SevenZipFile(io.BytesIO(buf.getvalue())).getnames()
        if kind == 0 or (kind == 2 and deref) or (kind in (2, 3, 4) and not deref):
            want = ["arc"]
        elif kind == 1 or (kind == 3 and deref):
            want = ["arc", "arc/k1", "arc/k2"]
        else:
            want = []
        return names != want, "kind=%d deref=%s: archive lists %s, expected %s" % (kind, deref, names, want)
    finally:
        os.chdir(cwd)
        shutil.rmtree(d, ignore_errors=True)
