"""C16 – member names are kept relative on write."""
from __future__ import annotations

import ast

import z3

from vf.common import ObResult, Unit
from vf.props.c17 import _cex
from vf.pysym import pathdom as P
from vf.pysym.engine import Engine
from vf.pysym.harness import decide, model_value
from vf.pysym.values import ModelRaise

HP = "py7zr.helpers"

ASSUMPTIONS = [
    "path domain: a name is '/'.join(components), each component symbolic over {'', '.', '..', a, b, 'c:', <probe dir name>}; "
    "pathlib's pure-path parsing / parts / joinpath / relative_to / is_absolute are modelled (vf/pysym/pathdom.py) and "
    "validated against real PurePosixPath on the whole alphabet up to length 4 at the start of every run",
    "the writestr/writef gate (rejected => ValueError, no state change) is the C15 obligation 'badname'",
]


def validate_model(maxlen=3):
    """translator validation of the pathlib model: every name over the alphabet up to maxlen components"""
    import itertools
    import pathlib

    eng = Engine([HP], intmode="int")
    P.install(eng, P.SPath(["/", "jail"]))
    n = 0
    for k in range(1, maxlen + 1):
        for combo in itertools.product(range(P.ALPHA), repeat=k):
            name = "/".join(P.NAMES[c] for c in combo)
            real = pathlib.PurePosixPath(name).parts

            def harness(e):
                return [P.NAMES[p.code] if p.code < 100 else ("/" if p.code == 100 else "//") for p in P.to_path(e, P.SName([P.C(c) for c in combo])).parts]

            res = eng.explore(harness)
            assert len(res) == 1 and tuple(res[0][2]) == real, (name, res[0][2], real)
            n += 1
    return n


def spec_accepts(eng, comps):
    """independent definition: reject iff absolute or the depth goes negative under lexical '..' resolution"""
    if len(comps) >= 2 and eng.branch(P.ceq(eng, comps[0], "")):
        return False
    depth = 0
    for c in comps:
        if eng.branch(P.ceq(eng, c, "")) or eng.branch(P.ceq(eng, c, ".")):
            continue
        if eng.branch(P.ceq(eng, c, "..")):
            depth -= 1
            if depth < 0:
                return False
        else:
            depth += 1
    return True


def archive_path(n, first):
    r = ObResult(bounds="names of exactly %d components, first component = %r, the others symbolic over the 7-letter "
                        "component alphabet (incl. '', '.', '..', 'c:', the internal probe directory name)" % (n, P.NAMES[first]))
    r.validated = validate_model(3 if n <= 4 else 2)
    eng = Engine([HP], intmode="int", unroll=20)
    P.install(eng, P.SPath(["/", "jail"]))
    cs = [first] + [eng.sym_int("c%d" % i, 3) for i in range(1, n)]

    def harness(e):
        for c in cs[1:]:
            e.assume(e.compare(ast.Lt(), c, P.ALPHA))
        comps = [P.C(c) for c in cs]
        try:
            got = e.call(HP, "check_archive_path", P.SName(comps))
        except ModelRaise as ex:
            got = "raise:" + ex.name
        want = spec_accepts(e, comps)
        return dict(got=got, want=want, comps=comps)

    def post(o):
        return [o["got"] == o["want"]]

    decide(eng, harness, post, {"c%d" % i: c for i, c in enumerate(cs) if i}, r,
           describe=lambda o: "py7zr=%s spec=%s" % (o["got"], o["want"]))

    def name_of(w):
        return "/".join([P.NAMES[first]] + [P.NAMES[int(w["c%d" % i])] for i in range(1, n)])

    _cex(r, "archive_path", lambda w: dict(module="vf.props.c16", func="replay_archive_path", kwargs=dict(name=name_of(w))),
         signature=lambda w: {"obligation": "check_archive_path",
                              "class": "reenters_probe_dir" if "dafj08sajfa" in name_of(w).split("/") else "other"})
    for c in r.cex:
        c["witness"] = {"name": name_of(c["witness"])}
    return r


def replay_archive_path(name):
    import io

    import py7zr

    comps = name.split("/")
    absolute = name.startswith("/")
    depth, ok = 0, not absolute
    for c in comps:
        if c in ("", "."):
            continue
        if c == "..":
            depth -= 1
            if depth < 0:
                ok = False
                break
        else:
            depth += 1
    buf = io.BytesIO()
    z = py7zr.SevenZipFile(buf, "w", filters=[{"id": py7zr.FILTER_COPY}])
    try:
        z.writestr(b"x", name)
        accepted = True
    except ValueError:
        accepted = False
    try:
        z.close()
    except Exception:
        pass
    if accepted != ok:
        listed = py7zr.SevenZipFile(io.BytesIO(buf.getvalue())).getnames() if accepted else None
        return True, "writestr(%r): accepted=%s, the definition says %s; archive lists %s" % (name, accepted, ok, listed)
    return False, "writestr(%r) accepted=%s as defined" % (name, accepted)


# ---------------------------------------------------------------- 3. _sanitize_archive_arcname
ALPH = ["/", ":", ".", "a", "C", "\\"]


def spec_sanitize(e, s):
    """-> list of characters kept, or None when the name must be refused"""
    def is_(i, lits):
        ch = s.chars[i]
        for lit in lits:
            if e.branch(e.compare(ast.Eq(), ch.idx, ALPH.index(lit))):
                return True
        return False

    i = 0
    while i < len(s.chars) and is_(i, ["/"]):
        i += 1
    if i + 1 < len(s.chars) + 0 and i + 1 <= len(s.chars) - 1 and is_(i, ["a", "C"]) and is_(i + 1, [":"]):
        i += 2
        while i < len(s.chars) and is_(i, ["/"]):
            i += 1
    rest = s.chars[i:]
    if rest and is_(i, ["/"]):
        return None
    if len(rest) >= 2 and is_(i, ["a", "C"]) and is_(i + 1, [":"]):
        return None
    return rest


def sanitize(n):
    """every string of exactly n characters over {'/', ':', '.', 'a', 'C', backslash}"""
    from vf.pysym import strdom as SD

    r = ObResult(bounds="arcnames of exactly %d characters, each symbolic over %r" % (n, ALPH))
    eng = Engine(["py7zr.py7zr"], intmode="int", unroll=20)
    SD.install(eng)
    cs = [eng.sym_int("ch%d" % i, 3) for i in range(n)]

    def harness(e):
        for c in cs:
            e.assume(e.compare(ast.Lt(), c, len(ALPH)))
        s = SD.AStr([SD.Ch(c, ALPH) for c in cs])
        z = __import__("vf.pysym.values", fromlist=["SObj"]).SObj(e.cls("py7zr.py7zr", "SevenZipFile"))
        want = spec_sanitize(e, s)
        try:
            out = e.method(z, "_sanitize_archive_arcname", s)
        except ModelRaise as ex:
            return dict(exc=ex.name, want=want)
        return dict(out=out, want=want)

    def post(o):
        # independent definition: drop every leading separator, then one drive prefix and the separators behind it; what
        # is left is stored unless it is still absolute / still has a drive prefix (only then AbsolutePathError)
        if "exc" in o:
            return [o["exc"] == "AbsolutePathError", o["want"] is None]
        out = o["out"]
        if o["want"] is None:
            return False
        c = [len(out.chars) == len(o["want"])]
        for a, b in zip(out.chars, o["want"]):
            c.append(eng.compare(ast.Eq(), a.idx, b.idx))
        if len(out.chars) >= 1:
            c.append(z3.Not(eng.lift(out.chars[0].idx) == ALPH.index("/")))          # not absolute
        if len(out.chars) >= 2:
            c.append(z3.Not(z3.And(z3.Or(eng.lift(out.chars[0].idx) == ALPH.index("a"), eng.lift(out.chars[0].idx) == ALPH.index("C")),
                                   eng.lift(out.chars[1].idx) == ALPH.index(":"))))  # no drive prefix
        return c or [True]

    decide(eng, harness, post, {"ch%d" % i: c for i, c in enumerate(cs)}, r, describe=lambda o: o.get("exc") or "%d chars kept" % len(o["out"].chars))
    _cex(r, "sanitize", lambda w: dict(module="vf.props.c16", func="replay_sanitize", kwargs=dict(
        s="".join(ALPH[int(w["ch%d" % i])] for i in range(n)))), signature=lambda w: {"obligation": "sanitize"})
    return r


def replay_sanitize(s):
    import io
    import re

    import py7zr
    from py7zr.exceptions import AbsolutePathError

    # the independent definition, concretely
    rest = s.lstrip("/")
    if re.match("^[a-zA-Z]:", rest):
        rest = rest[2:].lstrip("/")
    want = None if (rest.startswith("/") or re.match("^[a-zA-Z]:", rest)) else rest
    z = py7zr.SevenZipFile(io.BytesIO(), "w")
    try:
        out = z._sanitize_archive_arcname(s)
    except AbsolutePathError:
        return (want is not None), "%r refused with AbsolutePathError; the definition keeps %r" % (s, want)
    except Exception as e:  # noqa
        return True, "raised %r" % (e,)
    return out != want, "%r -> %r (definition: %r)" % (s, out, want)


def units(tier):
    M = "vf.props.c16"
    us = []
    for n in range(1, (5 if tier == "quick" else 6) + 1):
        for first in range(P.ALPHA):
            us.append(Unit("1.check_archive_path[n=%d,first=%r]" % (n, P.NAMES[first]), M, "archive_path", dict(n=n, first=first), 1800))
    for n in range(0, (5 if tier == "quick" else 7) + 1):
        us.append(Unit("3.sanitize_arcname[len=%d]" % n, M, "sanitize", dict(n=n), 1800))
    return us
