"""C14 – a crash while writing never leaves a file that opens with wrong contents (commit protocol at byte granularity)."""
from __future__ import annotations

import ast
import io

import z3

from vf.common import ObResult, Unit
from vf.harness import extract as X
from vf.harness import readcases as RC
from vf.harness import session as S
from vf.props import c08
from vf.props.c17 import _cex
from vf.pysym.engine import Engine
from vf.pysym.harness import decide
from vf.pysym.values import ModelRaise, SBytes, SFile, is_sym

AI = "py7zr.archiveinfo"

ASSUMPTIONS = [
    "crash model: the file image after a crash is a prefix of the ordered stream of write operations the session issued, "
    "cut at byte granularity (for the final 32-byte rewrite: new[0:p] ++ old[p:32] for every p); reordering or dropping "
    "of buffered blocks by the OS is outside",
    "CRC32 collision-free abstraction (equal CRC symbols <=> equal content); the skeleton's CRC fields use the real zlib value",
    "for append sessions, that nothing is written into the old packed area is obligation C08 (re-checked here on the "
    "operation log); an old header that survives byte-identical opens as the old archive, which the property allows",
]


def eq(eng, a, b):
    return eng.compare(ast.Eq(), a, b)


# ------------------------------------------------------------------- 1. order of the final writes
def write_order(kind, pattern, new="s"):
    """kind: 'create' (session of `pattern` members) or 'append' (base shape index, then `new`)"""
    r = ObResult(bounds="%s session (%s): the ordered log of seek/write operations with symbolic positions" % (kind, pattern))
    eng, st = c08.mk_engine()
    sizes = [eng.sym_int("size%d" % i, 40) for i in range(8)]
    base = {"f": ("f", [1], {}), "ff": ("ff", [2], {}), "f+f": ("ff", [1, 1], {})}

    def harness(e):
        st.pop("compressors", None)
        if kind == "create":
            z, fp = S.new_archive(e, header_mode="raw")
            first_op = 0
            for i, k in enumerate(pattern):
                if k == "s":
                    e.method(z, "_writef", S.StubSource(sizes[i], "m%d" % i), "m%d" % i)
                else:
                    e.method(z, "write", S.StubPath("src/d%d" % i, "dir", 0, "m%d" % i), "d%d" % i)
            e.method(z, "close")
            limit = 32
        else:
            p, f, o = base[pattern]
            sym = RC.symbols(e, p)
            entries, layout = RC.build(e, p, f, o, sym)
            z, fp, w = X.setup_read(e, entries, layout)
            z.attrs["mode"] = "a"
            z.attrs["encoded_header_mode"] = False
            first_op = len(fp.ops)
            e.method(z, "_prepare_append", None, None)
            for i, k in enumerate(new):
                e.method(z, "_writef", S.StubSource(sizes[i], "n%d" % i), "new%d" % i)
            e.method(z, "close")
            limit = 32
        return dict(ops=fp.ops[first_op:], kind=kind)

    def post(o):
        ops = [op for op in o["ops"] if op[0] == "write"]
        c = []
        # the signature-header rewrite is the last group of writes and covers exactly [0,32)
        tail, k = [], len(ops) - 1
        while k >= 0 and not is_sym(ops[k][1]) and ops[k][1] < 32:
            tail.insert(0, ops[k])
            k -= 1
        c.append(sum(op[3] for op in tail if not is_sym(op[3])) == 32 and len(tail) > 0 and tail[0][1] == 0)
        rest = ops[:k + 1]
        if o["kind"] == "create":
            # the only earlier writes below 32 are the placeholder header written first
            j = 0
            while j < len(rest) and not is_sym(rest[j][1]) and rest[j][1] < 32:
                j += 1
            # ... and it overwrites every byte of [0,32) (whatever an older file held there is gone before data is written)
            c.append(j > 0 and rest[0][1] == 0 and all(not is_sym(x[3]) for x in rest[:j])
                     and all(rest[i][1] + rest[i][3] == rest[i + 1][1] for i in range(j - 1))
                     and sum(x[3] for x in rest[:j]) == 32)
            rest = rest[j:]
        for op in rest:
            c.append(eng.compare(ast.GtE(), op[1], 32))
        return c

    decide(eng, harness, post, {"size%d" % i: s for i, s in enumerate(sizes)}, r,
           describe=lambda o: "%d operations" % len(o["ops"]))
    _cex(r, "write_order", lambda w_: dict(module="vf.props.c14", func="replay_order", kwargs=dict(kind=kind)),
         signature=lambda w_: {"obligation": "write_order", "kind": kind})
    return r


class _Spy(io.BytesIO):
    def __init__(self, *a):
        super().__init__(*a)
        self.log = []

    def write(self, b):
        self.log.append((self.tell(), len(b)))
        return super().write(b)


def replay_order(kind):
    import py7zr

    f = _Spy()
    with py7zr.SevenZipFile(f, "w", filters=[{"id": py7zr.FILTER_COPY}]) as z:
        z.writestr(b"hello", "a")
    if kind == "append":
        f2 = _Spy(f.getvalue())
        with py7zr.SevenZipFile(f2, "a", filters=[{"id": py7zr.FILTER_COPY}]) as z:
            z.writestr(b"world", "b")
        f = f2
    log = f.log
    if kind == "create":
        lead, pos = 0, 0
        while lead < len(log) and log[lead][0] == pos and pos < 32:
            pos += log[lead][1]
            lead += 1
        if pos != 32:
            return True, "the placeholder written first covers only [0,%d): %s" % (pos, log[:8])
    last_low = max(i for i, (p, n) in enumerate(log) if p < 32)
    first_final = last_low
    while first_final > 0 and log[first_final - 1][0] < 32 and log[first_final - 1][0] + log[first_final - 1][1] == log[first_final][0]:
        first_final -= 1
    later_high = [x for x in log[first_final:] if x[0] >= 32]
    return bool(later_high) or last_low != len(log) - 1, "write log: %s" % log[-12:]


# ---------------------------------------------------------------- 2. torn signature header
def torn_header(mode, p):
    r = ObResult(bounds="%s session, crash after %d of the 32 bytes of the final signature-header write; every value of "
                        "offset/size/CRC fields of the old and the new header" % (mode, p))
    eng = Engine([AI], intmode="bv")
    eng.overrides[("py7zr.helpers", "calculate_crc32")] = eng.models._crc32
    names = ["ofs_new", "size_new", "hcrc_new", "ofs_old", "size_old", "hcrc_old"]
    no, so, hn, oo, osz, oh = [eng.sym_int(n, 32 if "crc" in n else 64) for n in names]

    def written(e, ofs, size, hcrc, skeleton=False):
        sh = e.new(e.cls(AI, "SignatureHeader"))
        f = SFile()
        if skeleton:
            e.method(sh, "_write_skeleton", f)
        else:
            sh.attrs["nextheaderofs"] = ofs
            e.method(sh, "calccrc", size, hcrc)
            e.method(sh, "write", f)
        return list(f.items)

    def harness(e):
        e.assume(so != 0)
        e.assume(osz != 0)
        new = written(e, no, so, hn)
        old = written(e, None, None, None, skeleton=True) if mode == "create" else written(e, oo, osz, oh)
        if len(new) != 32 or len(old) != 32:
            return dict(bad_len=(len(new), len(old)))
        img = new[:p] + old[p:]
        rd = e.new(e.cls(AI, "SignatureHeader"))
        try:
            e.method(rd, "_read", SFile(img))
        except ModelRaise as ex:
            return dict(rejected=ex.name)
        return dict(img=img, new=new, old=old, rd=rd)

    def post(o):
        if "bad_len" in o:
            return False
        if "rejected" in o:
            return None
        same_new = z3.And(*[eng.lift(a) == eng.lift(b) for a, b in zip(o["img"], o["new"])])
        same_old = z3.And(*[eng.lift(a) == eng.lift(b) for a, b in zip(o["img"], o["old"])])
        return [same_new if mode == "create" else z3.Or(same_new, same_old)]

    decide(eng, harness, post, dict(zip(names, [no, so, hn, oo, osz, oh])), r,
           describe=lambda o: o.get("rejected") or "accepted")
    _cex(r, "torn_header", lambda w_: dict(module="vf.props.c14", func="replay_torn", kwargs=dict(
        mode=mode, p=p, vals={k: int(v) for k, v in w_.items()})), signature=lambda w_: {"obligation": "torn_header", "mode": mode})
    return r


def replay_torn(mode, p, vals):
    import py7zr.archiveinfo as ai

    def mk(ofs, size, hcrc, skeleton=False):
        sh = ai.SignatureHeader()
        f = io.BytesIO()
        if skeleton:
            sh._write_skeleton(f)
        else:
            sh.nextheaderofs = ofs
            sh.calccrc(size, hcrc)
            sh.write(f)
        return f.getvalue()

    new = mk(vals["ofs_new"], vals["size_new"], vals["hcrc_new"])
    old = mk(0, 0, 0, True) if mode == "create" else mk(vals["ofs_old"], vals["size_old"], vals["hcrc_old"])
    img = new[:p] + old[p:]
    try:
        ai.SignatureHeader.retrieve(io.BytesIO(img))
    except Exception as e:  # noqa
        return False, "rejected: %r" % (e,)
    ok = img == new or (mode == "append" and img == old)
    return (not ok), "torn image accepted: %s" % img.hex()


# ---------------------------------------------------------------- 3. crash inside the placeholder write
def truncated_start(n):
    r = ObResult(bounds="create session, crash after %d of the 32 placeholder bytes: the file is that short; %s; "
                        "the real _check_7zfile and SignatureHeader._read on it" % (n, "EVERY content of a file of that length (symbolic bytes)" if n < 32 else "the placeholder itself"))
    eng = Engine([AI, "py7zr.py7zr"], intmode="bv")
    eng.overrides[("py7zr.helpers", "calculate_crc32")] = eng.models._crc32

    byts = [eng.sym_int("b%d" % i, 8) for i in range(n)] if n < 32 else []

    def harness(e):
        sh = e.new(e.cls(AI, "SignatureHeader"))
        f = SFile()
        e.method(sh, "_write_skeleton", f)
        skel = list(f.items)
        if len(skel) != 32:
            return dict(accepted=True, short_skeleton=len(skel))
        img = list(byts) if n < 32 else skel
        try:
            ok = e.call_function(e.cls("py7zr.py7zr", "SevenZipFile").find("_check_7zfile")[1], [SFile(list(img))], {})
            if not e.branch(e.truth(ok)):
                return dict(rejected="not a 7z file")
            rd = e.new(e.cls(AI, "SignatureHeader"))
            e.method(rd, "_read", SFile(list(img)))
        except ModelRaise as ex:
            return dict(rejected=ex.name)
        return dict(accepted=True, size=rd.attrs.get("nextheadersize"))

    def post(o):
        return "rejected" in o

    decide(eng, harness, post, {"b%d" % i: b for i, b in enumerate(byts)}, r, describe=lambda o: o.get("rejected") or "accepted")
    _cex(r, "truncated_start", lambda w_: dict(module="vf.props.c14", func="replay_truncated", kwargs=dict(
        n=n, content=[int(w_.get("b%d" % i, 0)) for i in range(len(byts))])),
         signature=lambda w_: {"obligation": "truncated_start", "n": n})
    return r


def replay_truncated(n, content=()):
    import py7zr
    import py7zr.archiveinfo as ai

    f = io.BytesIO()
    ai.SignatureHeader()._write_skeleton(f)
    img = bytes(content) if n < 32 else f.getvalue()
    if 12 <= n < 32:
        # the witness fixes the CRC field only up to the collision-free abstraction: store the real CRC of what follows
        import struct
        import zlib

        img = img[:8] + struct.pack("<L", zlib.crc32(img[12:])) + img[12:]
    try:
        with py7zr.SevenZipFile(io.BytesIO(img)) as z:
            names = z.getnames()
    except Exception as e:  # noqa
        return False, "rejected: %r" % (e,)
    return True, "a %d-byte crash remnant of a create session opens as an archive with members %r" % (n, names)


def units(tier):
    M = "vf.props.c14"
    us = []
    for pat in (["", "s", "ss", "sd"] if tier == "quick" else ["", "s", "ss", "sd", "ds", "sss"]):
        us.append(Unit("1.write_order[create,%s]" % (pat or "empty"), M, "write_order", dict(kind="create", pattern=pat), 600))
    for b in ("f", "ff", "f+f"):
        for nw in (["s"] if tier == "quick" else ["s", "ss", ""]):
            us.append(Unit("1.write_order[append,%s+%s]" % (b, nw or "nothing"), M, "write_order", dict(kind="append", pattern=b, new=nw), 600))
    for mode in ("create", "append"):
        for p in range(0, 33):
            us.append(Unit("2.torn_header[%s,p=%d]" % (mode, p), M, "torn_header", dict(mode=mode, p=p), 600))
    for n in range(0, 33):
        us.append(Unit("3.truncated_start[%d]" % n, M, "truncated_start", dict(n=n), 600))
    return us
