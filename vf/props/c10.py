"""C10 – listings tell the truth about the archive."""
from __future__ import annotations

import ast
import io
import os

from vf.common import ObResult, Unit
from vf.harness import extract as X
from vf.harness import readcases as RC
from vf.props import c06
from vf.props.c17 import _cex
from vf.pysym.harness import decide
from vf.pysym.models import Native
from vf.pysym.values import ModelRaise

ASSUMPTIONS = c06.ASSUMPTIONS + [
    "os.stat(archive file name) is a stub; filetime_to_dt (FILETIME -> datetime) is an opaque stub (time conversion is "
    "the subject of C02)",
]

METHOD_NAMES = {b"\x21": "LZMA2", b"\x03\x01\x01": "LZMA", b"\x06\xf1\x07\x01": "7zAES", b"\x00": "COPY"}
ORDER = ["LZMA2", "LZMA", "BZip2", "DEFLATE", "DEFLATE64", "DELTA", "COPY", "PPMd", "ZStandard", "Brotli", "LZ4*", "BCJ2*", "BCJ",
         "ARM", "ARMT", "IA64", "PPC", "SPARC", "7zAES"]


class _Stat(Native):
    def __init__(self):
        self.st_size = 12345


def eq(eng, a, b):
    return eng.compare(ast.Eq(), a, b)


def listings(pattern, folders, opts):
    r = ObResult(bounds="layout %s; getnames/namelist/list/getinfo/archiveinfo/needs_password; values symbolic"
                        % RC.shape_name(pattern, folders, opts))
    eng = RC.mk_engine(modules=["py7zr.compressor"])
    eng.models.reg(os.stat, lambda e, p: _Stat())
    eng.overrides[("py7zr.helpers", "filetime_to_dt")] = lambda e, ft: ("dt", ft)
    sym = RC.symbols(eng, pattern)
    aes = bool(opts.get("aes"))
    password = "pw" if opts.get("password") else None

    def harness(e):
        entries, layout = RC.build(e, pattern, folders, opts, sym)
        if aes:
            layout["coder_ids"] = [b"\x06\xf1\x07\x01", b"\x21"]
            layout["props"] = {(fi, 0): [0x53, 0x0F] + [0] * 16 for fi in range(len(folders))}
        try:
            z, fp, w = X.setup_read(e, entries, layout, name="arch.7z", password=password)
        except ModelRaise as ex:
            return dict(exc="open:" + ex.name)
        o = dict(entries=entries, world=w, layout=layout)

        def call(key, name, *a):
            try:
                o[key] = ("ok", e.method(z, name, *a))
            except ModelRaise as ex:
                o[key] = ("raise", ex.name)

        call("getnames", "getnames")
        call("namelist", "namelist")
        call("list", "list")
        call("needs_password", "needs_password")
        call("archiveinfo", "archiveinfo")
        o["getinfo"] = []
        for en in entries:
            for nm in (en["name"], en["name"] + "/"):
                try:
                    m = e.method(z, "getinfo", nm)
                    o["getinfo"].append((nm, "ok", e.models.getattr(e, m, "filename")))
                except ModelRaise as ex:
                    o["getinfo"].append((nm, "raise", ex.name))
        try:
            e.method(z, "getinfo", "no/such/member")
            o["absent"] = "returned"
        except ModelRaise as ex:
            o["absent"] = ex.name
        o["files_attr"] = [e.models.getattr(e, af, "filename") for af in e.iterate(z.attrs["files"])]
        return o

    def post(o):
        if "exc" in o:
            return False
        c = []
        entries, w = o["entries"], o["world"]
        names = [en["name"] for en in entries]
        for key in ("getnames", "namelist"):
            c.append(o[key] == ("ok", names))
        c.append(o["files_attr"] == names)
        st, lst = o["list"]
        c.append(st == "ok")
        if st != "ok":
            return c
        c.append(len(lst) == len(entries))
        total = 0
        for i, (fi, en) in enumerate(zip(lst, entries)):
            c.append(fi.attrs["filename"] == en["name"])
            c.append(fi.attrs["is_directory"] == (en["kind"] == "d"))
            # the time shown for a member is that member's own LastWriteTime – none where the archive stores none
            ct = fi.attrs["creationtime"]
            if en.get("mtime") is None:
                c.append(ct is None)
            else:
                c.append(isinstance(ct, tuple) and ct[0] == "dt" and ct[1] is not None)
                if isinstance(ct, tuple) and ct[1] is not None:
                    c.append(eq(eng, ct[1], en["mtime"]))
            if en["kind"] in "fl":
                k, off, size = w.member_range[i]
                c.append(eq(eng, fi.attrs["uncompressed"], size))
                total = eng.binop(ast.Add(), total, size)
                if en.get("crc_defined", True) is False:
                    c.append(fi.attrs["crc32"] is None)     # the archive stores no CRC for this member
                elif opts.get("crc_at", "sub") != "none" and (opts.get("crc_at") != "folder" or folders[k] == 1):
                    c.append(fi.attrs["crc32"] is not None)
                    if fi.attrs["crc32"] is not None:
                        c.append(eq(eng, fi.attrs["crc32"], en["crc"]))
            else:
                c.append(fi.attrs["uncompressed"] == 0)
        for (nm, st_, val) in o["getinfo"]:
            c.append(st_ == "ok" and val == (nm[:-1] if nm.endswith("/") else nm))
        c.append(o["absent"] == "KeyError")
        c.append(o["needs_password"] == ("ok", bool((aes and folders) or password)))
        st_, ai = o["archiveinfo"]
        c.append(st_ == "ok")
        if st_ == "ok":
            c.append(eq(eng, ai.attrs["uncompressed"], total))
            c.append(ai.attrs["blocks"] == len(folders))
            c.append(ai.attrs["solid"] == any(n > 1 for n in folders))
            present = set()
            ids = o["layout"]["coder_ids"]
            for fi_ in range(len(folders)):
                for ci in range(o["layout"]["ncoders"][fi_]):
                    present.add(METHOD_NAMES[ids[(fi_ + ci) % len(ids)]])
            c.append(ai.attrs["method_names"] == [m for m in ORDER if m in present])
        return c

    decide(eng, harness, post, RC.inputs_of(sym, pattern, folders), r,
           describe=lambda o: o.get("exc") or "names=%s archiveinfo=%s" % (o["getnames"][1], o["archiveinfo"][0]))
    _cex(r, "listings", lambda w_: dict(module="vf.props.c10", func="replay", kwargs=dict(
        pattern=pattern, folders=folders, opts=opts, witness={k: int(v) for k, v in w_.items() if isinstance(v, int)})),
         signature=lambda w_: dict(c06._sig("listings", pattern, folders, opts), empty_archive=(pattern == "")))
    return r


def replay(pattern, folders, opts, witness):
    """the concrete counterpart opened from a real file with the real library"""
    import tempfile
    import zlib

    import py7zr

    opts = dict(opts)
    opts.pop("aes", None)
    img, entries, datas = c06.concrete_case(pattern, folders, opts, witness)
    d = tempfile.mkdtemp(prefix="vf_c10_")
    p = os.path.join(d, "a.7z")
    try:
        open(p, "wb").write(img)
        z = py7zr.SevenZipFile(p, password="pw") if opts.get("password") else py7zr.SevenZipFile(p)
        names = [e["name"] for e in entries]
        if z.needs_password() != bool(opts.get("password")):   # (the replay archive carries no AES coder)
            return True, "needs_password() = %s for an archive without encryption opened %s a password" % (
                z.needs_password(), "with" if opts.get("password") else "without")
        if z.getnames() != names or z.namelist() != names or [f.filename for f in z.list()] != names:
            return True, "names differ: %s" % z.getnames()
        di = 0
        for f, e in zip(z.list(), entries):
            if f.is_directory != (e["kind"] == "d"):
                return True, "is_directory of %s is %s" % (e["name"], f.is_directory)
            from py7zr.helpers import filetime_to_dt

            want_t = None if e.get("mtime") is None else filetime_to_dt(e["mtime"])
            if f.creationtime != want_t:
                return True, "list() shows %s as the time of %s, whose LastWriteTime is %s" % (f.creationtime, e["name"], want_t)
            if e["kind"] in "fl":
                if f.uncompressed != len(datas[di]):
                    return True, "size of %s" % e["name"]
                if e.get("crc_defined", True) is False:
                    if f.crc32 is not None:
                        return True, "crc32 of %s reported %s although the archive stores none" % (e["name"], f.crc32)
                elif opts.get("crc_at", "sub") != "none" and f.crc32 != zlib.crc32(datas[di]):
                    return True, "crc32 of %s reported %s" % (e["name"], f.crc32)
                di += 1
        for n in names:
            for nm in (n, n + "/"):
                try:
                    if z.getinfo(nm).filename != n:
                        return True, "getinfo(%r)" % nm
                except KeyError:
                    return True, "getinfo(%r) raised KeyError" % nm
        try:
            z.getinfo("no/such/member")
            return True, "getinfo(absent) returned"
        except KeyError:
            pass
        try:
            ai = z.archiveinfo()
        except Exception as ex:  # noqa
            return True, "archiveinfo() raised %r" % (ex,)
        if ai.uncompressed != sum(len(x) for x in datas) or ai.blocks != len(folders) or ai.solid != any(n > 1 for n in folders):
            return True, "archiveinfo: %s %s %s" % (ai.uncompressed, ai.blocks, ai.solid)
        return False, "listings agree"
    except Exception as ex:  # noqa
        return True, "raised %r" % (ex,)
    finally:
        import shutil

        shutil.rmtree(d, ignore_errors=True)


# ------------------------------------------------------------------ method names of every coder chain
def _lists(table, picks, layout, first):
    """coder lists handed to get_methods_names.  Default: first coder alone in a folder, the others chained in a second folder;
    with `layout` (lists of pick indices, -1 = the concrete method `first`) one list per folder"""
    if layout is None:
        return [[{"method": table[picks[0]][0]}]] + ([[{"method": table[k][0]} for k in picks[1:]]] if len(picks) > 1 else [])
    return [[{"method": table[first if i < 0 else picks[i]][0]} for i in fl] for fl in layout]


def _present(picks, layout, first):
    return list(picks) + ([first] if layout is not None and any(i < 0 for fl in layout for i in fl) else [])


def method_names(ncoders, layout=None, first=0):
    """get_methods_names on chains whose coders are symbolic picks from the live table of supported methods"""
    from py7zr.compressor import SupportedMethods

    table = [(m["id"], m["name"]) for m in SupportedMethods.methods]
    r = ObResult(bounds="%d symbolic coder(s), each a symbolic index into the %d supported methods %r; folders %s" % (
        ncoders, len(table), [n for _, n in table],
        "[[c0],[c1..]]" if layout is None else "%r with -1 = %s (several folders whose chains have equal length and the same first coder)" % (layout, table[first][1])))
    from vf.pysym.engine import Engine

    eng = Engine(["py7zr.compressor"], intmode="int")
    idx = [eng.sym_int("method%d" % i, 5) for i in range(ncoders)]

    def harness(e):
        picks = []
        for v in idx:
            e.assume(e.compare(ast.Lt(), v, len(table)))
            k = len(table) - 1
            for c in range(len(table) - 1):
                if e.branch(e.compare(ast.Eq(), v, c)):
                    k = c
                    break
            picks.append(k)
        lists = _lists(table, picks, layout, first)
        return dict(picks=picks, names=e.call("py7zr.compressor", "get_methods_names", lists))

    def post(o):
        want = sorted(set(table[k][1].lower() for k in _present(o["picks"], layout, first)))
        got = [n.lower() for n in o["names"]]
        return [sorted(got) == want]   # every coder present is named, once, and nothing else (letter case is not held against it)

    decide(eng, harness, post, {"method%d" % i: v for i, v in enumerate(idx)}, r,
           describe=lambda o: "%s -> %s" % ([table[k][1] for k in o["picks"]], o["names"]))
    _cex(r, "method_names", lambda w_: dict(module="vf.props.c10", func="replay_methods", kwargs=dict(
        picks=[min(int(w_.get("method%d" % i, 0)), len(table) - 1) for i in range(ncoders)], layout=layout, first=first)),
         signature=lambda w_: {"obligation": "method_names"})
    return r


def replay_methods(picks, layout=None, first=0):
    from py7zr.compressor import SupportedMethods, get_methods_names

    table = [(m["id"], m["name"]) for m in SupportedMethods.methods]
    lists = _lists(table, picks, layout, first)
    got = get_methods_names(lists)
    want = sorted(set(table[k][1].lower() for k in _present(picks, layout, first)))
    return sorted(n.lower() for n in got) != want, "folders %s reported as %s" % (
        [[[n for i_, n in table if i_ == c["method"]][0] for c in fl] for fl in lists], got)


def units(tier):
    M = "vf.props.c10"
    us = [Unit("method_names[%d]" % n, M, "method_names", dict(ncoders=n), 900) for n in ((1, 2) if tier == "quick" else (1, 2, 3))]
    # two (three) folders whose chains have the same length and the same first coder but differ behind it; the shared
    # coder is concrete per shard (LZMA2, BCJ, 7zAES in quick; every method in thorough), the others symbolic
    from py7zr.compressor import SupportedMethods

    n = len(SupportedMethods.methods)
    for k in ((1, 4, n - 1) if tier == "quick" else range(n)):
        us.append(Unit("method_names[2 folders, first=%d]" % k, M, "method_names", dict(ncoders=2, layout=[[-1, 0], [-1, 1]], first=k), 900))
        us.append(Unit("method_names[2 folders, last=%d]" % k, M, "method_names", dict(ncoders=2, layout=[[0, -1], [1, -1]], first=k), 900))
    if tier != "quick":
        us.append(Unit("method_names[3 folders]", M, "method_names", dict(ncoders=2, layout=[[-1, 0], [-1, 1], [-1, 0]], first=1), 900))
    shapes = RC.shapes(tier) + [("ff", [2], {"aes": True, "ncoders": 2}), ("ff", [1, 1], {"aes": True, "ncoders": 2, "password": True}),
                                ("f", [1], {"password": True})]
    for (p, f, o) in shapes:
        us.append(Unit("listings[%s]" % RC.shape_name(p, f, o), M, "listings", dict(pattern=p, folders=f, opts=o), 900))
    return us
