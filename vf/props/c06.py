"""C06 – reader conformance: any valid 7z layout is read as the format defines it (container grammar and the
file/stream mapping; decoding by real codecs is outside)."""
from __future__ import annotations

import ast
import io
import zlib

from vf.common import CEX, ObResult, Unit
from vf.harness import extract as X
from vf.harness import readcases as RC
from vf.harness import refwriter as W
from vf.props.c17 import _cex
from vf.pysym.harness import decide
from vf.pysym.values import ModelRaise, SObj

ASSUMPTIONS = [
    "reference writer vf/harness/refwriter.py emits the header (validated each run against the independent reference "
    "reader vf/ref7z.py and, in replays, against real archives)",
    "decoder contract stub (vf/harness/extract.py): returns the next r bytes of the folder's ideal stream, 0<=r<=remaining, "
    "r<=max_length, r>=1 while output remains; consumes at most the declared packed size; paths needing more than "
    "`unroll` decoder calls per member are cut (bounded) and counted",
    "CRC of decoded data = identity of the byte range hashed (CRCF(folder,start,end)); intact archive: the stored digest of "
    "member i equals CRCF of exactly its range",
    "NUMBER token summary justified by C17.a/b; get_memory_limit() arbitrary >= 1",
]


def eq(eng, a, b):
    return eng.compare(ast.Eq(), a, b)


def _sig(kind, pattern, folders, opts):
    interleaved = False
    k = 0
    data_pos = [i for i, c in enumerate(pattern) if c in "fl"]
    for n in folders:
        grp = data_pos[k:k + n]
        if grp and any(pattern[j] in "ed" for j in range(grp[0], grp[-1])):
            interleaved = True
        k += n
    return {"obligation": kind, "multi_folder": len(folders) > 1, "interleaved_empty_entry": interleaved,
            "packpos": bool(opts.get("packpos")), "crc_at": opts.get("crc_at", "sub"),
            "attrs": opts.get("attrs", "all"), "times": opts.get("times", "all")}


def listing(pattern, folders, opts):
    r = ObResult(bounds="layout %s: entries %s, folders %s; sizes (40 bit), CRCs (32), mtimes (63), pack sizes symbolic"
                        % (RC.shape_name(pattern, folders, opts), pattern or "-", folders))
    eng = RC.mk_engine()
    sym = RC.symbols(eng, pattern)

    def harness(e):
        entries, layout = RC.build(e, pattern, folders, opts, sym)
        try:
            z, fp, w = X.setup_read(e, entries, layout)
        except ModelRaise as ex:
            return dict(exc=ex.name, args=str(ex.eargs)[:100])
        out = []
        hdr = z.attrs["header"]
        fobjs = hdr.attrs["main_streams"].attrs["unpackinfo"].attrs["folders"] if hdr.attrs.get("main_streams") else []
        for af in e.iterate(z.attrs["files"]):
            fi = af.attrs["_file_info"]
            fo = fi.get("folder")
            out.append(dict(filename=fi.get("filename"), emptystream=fi.get("emptystream"), size=fi.get("uncompressed"),
                            digest=fi.get("digest"), folder=(fobjs.index(fo) if fo is not None else None),
                            attributes=fi.get("attributes"), mtime=fi.get("lastwritetime"),
                            is_dir=e.models.getattr(e, af, "is_directory"), id=af.attrs["id"]))
        # ids of the per-folder lists must be the ids of the same members in the global list
        folder_ids = []
        for fo in fobjs:
            fl = fo.attrs.get("files")
            folder_ids.append([(af.attrs["id"], af.attrs["_file_info"].get("filename")) for af in e.iterate(fl)] if fl is not None else [])
        return dict(files=out, entries=entries, world=w, folder_ids=folder_ids)

    def post(o):
        if "exc" in o:
            return False
        c = [len(o["files"]) == len(pattern)]
        w = o["world"]
        for i, (f, en) in enumerate(zip(o["files"], o["entries"])):
            k = en["kind"]
            c.append(f["filename"] == en["name"])
            c.append(f["emptystream"] == (k in "ed"))
            c.append(f["id"] == i)
            if k in "fl":
                fi_, off, size = w.member_range[i]
                c.append(f["folder"] == fi_)
                c.append(eq(eng, f["size"], size))
                if opts.get("crc_at", "sub") != "none" and (opts.get("crc_at") != "folder" or folders[fi_] == 1):
                    c.append(f["digest"] is not None)
                    if f["digest"] is not None:
                        c.append(eq(eng, f["digest"], en["crc"]))
            else:
                c.append(f["folder"] is None)
                c.append(f["size"] == 0)
            c.append((f["attributes"] is None) == (en["attributes"] is None))
            if en["attributes"] is not None and f["attributes"] is not None:
                c.append(eq(eng, f["attributes"], en["attributes"]))
            c.append((f["mtime"] is None) == (en["mtime"] is None))
            if en["mtime"] is not None and f["mtime"] is not None:
                c.append(eq(eng, f["mtime"], en["mtime"]))
            c.append(f["is_dir"] == (k == "d"))
        return c

    decide(eng, harness, post, RC.inputs_of(sym, pattern, folders), r,
           describe=lambda o: o.get("exc") or "%d members mapped" % len(o["files"]))
    r.note = (r.note + " cut_paths=%d" % eng.cut_paths).strip()
    _cex(r, "listing", lambda w_: _replay_spec("listing", pattern, folders, opts, w_), signature=lambda w_: _sig("listing", pattern, folders, opts))
    return r


def extract_all(pattern, folders, opts, unroll=2, by_path=False):
    r = ObResult(bounds="layout %s opened %s; extractall(factory); <= %d decoder calls per member; sizes/CRCs/pack sizes symbolic"
                        % (RC.shape_name(pattern, folders, opts), "by path (parallel branch run with a sequential thread "
                           "stand-in: one schedule)" if by_path else "from a stream", unroll))
    eng = RC.mk_engine(unroll=unroll)
    sym = RC.symbols(eng, pattern)

    def harness(e):
        entries, layout = RC.build(e, pattern, folders, opts, sym)
        try:
            z, fp, w = X.setup_read(e, entries, layout, name=("arch.7z" if by_path else None))
        except ModelRaise as ex:
            return dict(exc="open:" + ex.name)
        fac = X.StubFactory(w)
        try:
            e.method(z, "extractall", factory=fac)
        except ModelRaise as ex:
            return dict(exc=ex.name + str(ex.eargs)[:80], world=w, entries=entries)
        return dict(world=w, entries=entries, fp=fp)

    def post(o):
        if "exc" in o:
            return False
        return delivery_conditions(eng, o["world"], o["entries"], set(range(len(pattern)))) + [len(o["fp"].writes) == 0]

    decide(eng, harness, post, RC.inputs_of(sym, pattern, folders), r,
           describe=lambda o: o.get("exc") or "delivered %s" % sorted(X.delivered(o["world"]).keys()))
    r.note = (r.note + " cut_paths=%d" % eng.cut_paths).strip()
    _cex(r, "extract_all", lambda w_: _replay_spec("extract", pattern, folders, opts, w_, by_path),
         signature=lambda w_: _sig("extract_all", pattern, folders, opts))
    return r


def delivery_conditions(eng, w, entries, selected):
    """exactly the selected non-directory members are delivered, each with exactly its byte range"""
    c = []
    got = X.delivered(w)
    want = {}
    for i, en in enumerate(entries):
        if i in selected and en["kind"] != "d":
            want.setdefault(en["name"], []).append(i)
    c.append(sorted(got.keys()) == sorted(want.keys()))
    for name, idxs in want.items():
        prods = got.get(name, [])
        c.append(len(prods) == len(idxs))
        for i, chunks in zip(idxs, prods):
            en = entries[i]
            if en["kind"] == "e":
                c.append(len(chunks) == 0)
                continue
            fi_, off, size = w.member_range[i]
            total = 0
            for j, (k, coff, n) in enumerate(chunks):
                c.append(k == fi_)
                c.append(eq(eng, coff, eng.binop(ast.Add(), off, total)))
                total = eng.binop(ast.Add(), total, n)
            c.append(eq(eng, total, size))
    # every folder is decoded from where its packed stream lies: 32 + packpos + sum of the preceding pack sizes
    for (k, start) in w.read_starts:
        c.append(eq(eng, start, w.pack_start[k]))
    return c


def tree_names(pattern):
    """member names forming a consistent tree for the kinds of `pattern` (files may live in earlier directories)"""
    out, lastdir = [], None
    for i, k in enumerate(pattern):
        if k == "d":
            out.append("dir%d" % i)
            lastdir = out[-1]
        else:
            out.append(("%s/m%d.bin" % (lastdir, i)) if lastdir else "m%d.bin" % i)
    return out


def extract_to_path(pattern, folders, opts):
    """extractall(path) through the real _extract incl. its post-pass (utime / chmod) on the filesystem model"""
    from vf.harness import fakefs as F
    from vf.pysym.models import Native

    r = ObResult(bounds="layout %s; extractall(<directory>) on the filesystem model; sizes/CRCs/timestamps symbolic; one decoder "
                        "call per member" % RC.shape_name(pattern, folders, opts))
    eng = RC.mk_engine(unroll=1)
    sym = RC.symbols(eng, pattern)

    class TS(Native):
        def __init__(self, v):
            self.v = v

        def totimestamp(self, e):
            return ("ts", self.v)

    def harness(e):
        fs = F.FS()
        for loc in [("/", "base"), ("/", "base", "jail")]:
            fs.nodes[loc] = ("dir",)
        F.install(e, fs, "/base/jail")
        entries, layout = RC.build(e, pattern, folders, opts, sym, names=tree_names(pattern))
        try:
            z, fp, w = X.setup_read(e, entries, layout, consume="all-at-once")
        except ModelRaise as ex:
            return dict(exc="open:" + ex.name)
        # FILETIME -> float conversion is the subject of C02; here only *whether* and *with which stored value* it is applied
        e.class_models[("py7zr.helpers", "ArchiveTimestamp")] = lambda e_, x: TS(e_.models._int(e_, x))
        try:
            e.method(z, "extractall", F.FakePath(fs, "/base/jail", "/base/jail"))
        except ModelRaise as ex:
            return dict(exc=ex.name + str(ex.eargs)[:80])
        finally:
            e.class_models[("py7zr.helpers", "ArchiveTimestamp")] = lambda e_, x: e_.models._int(e_, x)
        return dict(fs=fs, entries=entries, world=w)

    def post(o):
        if "exc" in o:
            return False
        fs, entries, w = o["fs"], o["entries"], o["world"]
        c = []
        times, modes = fs.__dict__.get("times", {}), fs.__dict__.get("modes", {})
        for i, en in enumerate(entries):
            loc = ("/", "base", "jail") + tuple(en["name"].split("/"))
            if en["kind"] == "d":
                c.append(fs.kind(loc) == "dir")
            elif en["kind"] == "l":
                continue
            else:
                node = fs.nodes.get(loc)
                c.append(node is not None and node[0] == "file")
                if node is None or node[0] != "file":
                    continue
                if en["kind"] == "f":
                    fi_, off, size = w.member_range[i]
                    chunks = node[1].chunks if node[1] is not None else []
                    total = 0
                    for ch in chunks:
                        c.append(ch.folder == fi_)
                        total = eng.binop(ast.Add(), total, ch.n)
                    c.append(eq(eng, total, size))
            if en["kind"] in "fed" and not (en["kind"] == "d" and False):
                # modification time is applied exactly when the archive defines one, with the stored value
                if en["mtime"] is not None:
                    t = times.get(loc)
                    c.append(t is not None and isinstance(t[0], tuple) and t[0][0] == "ts")
                    if t is not None and isinstance(t[0], tuple):
                        c.append(eq(eng, t[0][1], en["mtime"]))
                else:
                    c.append(loc not in times)
                if en["attributes"] is not None and (en["attributes"] & 0x8000):
                    c.append(modes.get(loc) is not None and eq(eng, modes.get(loc), (en["attributes"] >> 16) & 0o7777) is not False)
        # nothing outside the destination
        c.append(all(loc[:3] == ("/", "base", "jail") for (op, loc) in fs.effects))
        return c

    decide(eng, harness, post, RC.inputs_of(sym, pattern, folders), r, describe=lambda o: o.get("exc") or "%d effects" % len(o["fs"].effects))
    _cex(r, "extract_to_path", lambda w_: dict(module="vf.props.c06", func="replay_to_path", kwargs=dict(
        pattern=pattern, folders=folders, opts=opts, witness={k: int(v) for k, v in w_.items() if isinstance(v, int)})),
         signature=lambda w_: dict(_sig("extract_to_path", pattern, folders, opts)))
    return r


def replay_to_path(pattern, folders, opts, witness):
    import os
    import shutil
    import tempfile

    import py7zr

    img, entries, datas = concrete_case(pattern, folders, opts, witness, names=tree_names(pattern))
    d = tempfile.mkdtemp(prefix="vf_c06p_")
    try:
        try:
            py7zr.SevenZipFile(io.BytesIO(img)).extractall(path=d)
        except Exception as e:  # noqa
            return True, "extraction of a valid archive to a directory failed: %r" % (e,)
        di = 0
        for en in entries:
            p = os.path.join(d, en["name"])
            if en["kind"] == "d":
                if not os.path.isdir(p):
                    return True, "directory %s missing" % en["name"]
            elif en["kind"] in "fe":
                want = datas[di] if en["kind"] == "f" else b""
                if not os.path.isfile(p) or open(p, "rb").read() != want:
                    return True, "member %s missing or different" % en["name"]
            if en["kind"] in "fl":
                di += 1
        return False, "tree as the format assigns"
    finally:
        shutil.rmtree(d, ignore_errors=True)


# ---------------------------------------------------------------------------------------- replays
def concrete_case(pattern, folders, opts, witness, names=None):
    """concrete archive (Copy codec) for a witness: returns (image bytes, expected {name: bytes or None})"""
    names = names or RC.NAMES
    entries, datas = [], []
    for i, k in enumerate(pattern):
        size = int(witness.get("size%d" % i, 0)) % 50 if k in "fl" else 0
        if k in "fl" and size == 0 and int(witness.get("size%d" % i, 0)) != 0:
            size = 1 + i
        data = bytes(((i * 37 + j) & 0xFF) for j in range(size))
        e = dict(kind=k, name=names[i], size=size, crc=zlib.crc32(data))
        undefined_attr = opts.get("attrs") == "partial" and i % 2 == 1
        undefined_time = opts.get("times") == "partial" and i % 2 == 0
        e["attributes"] = None if (undefined_attr or opts.get("attrs") == "none") else W.default_attributes(k)
        e["mtime"] = None if (undefined_time or opts.get("times") == "none") else 132000000000000000 + i
        entries.append(e)
        if k in "fl":
            datas.append(data)
    packs, k = [], 0
    for n in folders:
        packs.append(sum(len(d) for d in datas[k:k + n]))
        k += n
    layout = dict(folders=list(folders), ncoders=[1] * len(folders), packsizes=packs, crc_at=opts.get("crc_at", "sub"),
                  omit_numunpack=opts.get("omit_numunpack", True), dummy=opts.get("dummy"),
                  emptyfile_vector=opts.get("emptyfile_vector", False), coder_ids=[b"\x00"],
                  omit_substreams=opts.get("omit_substreams", False))
    packed = b"".join(datas)
    gap = b""
    if opts.get("packpos"):
        gap = b"JUNKJUNK"
        layout["packpos"] = len(gap)
    if opts.get("packcrc"):
        layout["packcrc"] = True
        k, layout["packcrcs"] = 0, []
        for n in folders:
            layout["packcrcs"].append(zlib.crc32(b"".join(datas[k:k + n])))
            k += n
    hb = bytes(W.write_header(entries, layout, concrete=True))
    img = W.seal(hb, packed, gap)
    return img, entries, datas


def _replay_spec(what, pattern, folders, opts, witness, by_path=False):
    return dict(module="vf.props.c06", func="replay", kwargs=dict(what=what, pattern=pattern, folders=folders, opts=opts, by_path=by_path,
                                                                  witness={k: int(v) for k, v in witness.items() if isinstance(v, int)}))


def replay(what, pattern, folders, opts, witness, targets=None, by_path=False):
    """open the concrete counterpart with the real library (from a BytesIO, or by file name so that multi-folder
    archives take the thread-parallel branch) and compare with the reference reader's view"""
    import py7zr
    from py7zr.io import BytesIOFactory
    from vf import ref7z

    img, entries, datas = concrete_case(pattern, folders, opts, witness)
    import struct

    ofs, size, _ = struct.unpack("<QQL", img[12:32])
    h = ref7z.rd_header(io.BytesIO(img[32 + ofs:32 + ofs + size]))
    mm = ref7z.member_map(h)
    di = 0
    expect = {}
    for en, m in zip(entries, mm):
        if en["kind"] in "fl":
            expect[en["name"]] = datas[di]
            di += 1
        elif en["kind"] == "e":
            expect[en["name"]] = b""
    import os
    import tempfile

    tmpd = tempfile.mkdtemp(prefix="vf_c06_") if by_path else None
    try:
        if by_path:
            open(os.path.join(tmpd, "a.7z"), "wb").write(img)
            z = py7zr.SevenZipFile(os.path.join(tmpd, "a.7z"))
        else:
            z = py7zr.SevenZipFile(io.BytesIO(img))
        if what == "listing":
            for f, en, m in zip(z.list(), entries, mm):
                if f.filename != en["name"] or f.uncompressed != m["size"] or f.is_directory != (en["kind"] == "d"):
                    return True, "listing differs for %s: size %s vs %s, is_directory %s" % (en["name"], f.uncompressed, m["size"], f.is_directory)
                if m["crc"] is not None and f.crc32 != m["crc"]:
                    return True, "crc32 of %s reported %s, format assigns %s" % (en["name"], f.crc32, m["crc"])
            return False, "listing agrees"
        fac = BytesIOFactory(10 ** 6)
        if targets is None:
            z.extractall(factory=fac)
            want = expect
        else:
            z.extract(targets=targets, factory=fac)
            want = {k: v for k, v in expect.items() if k in targets}
        got = {k: v.read() for k, v in fac.products.items()}
        if got != want:
            return True, "delivered %s, format assigns %s" % ({k: len(v) for k, v in got.items()}, {k: len(v) for k, v in want.items()})
        return False, "extraction agrees"
    except Exception as e:  # noqa
        return True, "valid archive rejected / failed: %r" % (e,)
    finally:
        if tmpd:
            import shutil

            shutil.rmtree(tmpd, ignore_errors=True)


# ------------------------------------------------------------------------------------------ units
QUICK_EXTRA = [("fdff", [2, 1], {}), ("ff", [1, 1], {"packpos": True})]


def units(tier):
    M = "vf.props.c06"
    us = []
    shapes = RC.shapes(tier) + (QUICK_EXTRA if tier == "quick" else [])
    for (p, f, o) in shapes:
        us.append(Unit("L.listing[%s]" % RC.shape_name(p, f, o), M, "listing", dict(pattern=p, folders=f, opts=o), 900))
    for (p, f, o) in shapes:
        us.append(Unit("X.extractall[%s]" % RC.shape_name(p, f, o), M, "extract_all",
                       dict(pattern=p, folders=f, opts=o, unroll=2 if tier == "quick" else 3), 1800))
    for (p, f, o) in [("fdf", [2], {}), ("fff", [2, 1], {"times": "partial"}), ("ffd", [2], {"attrs": "partial"}), ("fef", [1, 1], {"times": "none"})] + (
            [("fdf", [1, 1], {"attrs": "none"}), ("ff", [2], {"times": "partial", "attrs": "partial"})] if tier == "thorough" else []):
        us.append(Unit("D.extract_to_path[%s]" % RC.shape_name(p, f, o), M, "extract_to_path", dict(pattern=p, folders=f, opts=o), 1800))
    # the thread-parallel branch (multi-folder archive opened by path), workers run one after the other
    for (p, f, o) in [s_ for s_ in shapes if len(s_[1]) > 1][: (3 if tier == "quick" else 99)] + [("ff", [1, 1], {"packpos": True}), ("fdf", [1, 0, 1], {})]:
        us.append(Unit("P.extractall_by_path[%s]" % RC.shape_name(p, f, o), M, "extract_all",
                       dict(pattern=p, folders=f, opts=o, unroll=1 if tier == "quick" else 2, by_path=True), 1800))
    return us
