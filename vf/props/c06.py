"""C06 – reader conformance: any valid 7z layout is read as the format defines it (container grammar and the
file/stream mapping; decoding by real codecs is outside)."""
from __future__ import annotations

import ast
import io
import zlib

import z3

from vf.common import CEX, ObResult, Unit
from vf.harness import extract as X
from vf.harness import readcases as RC
from vf.harness import refwriter as W
from vf.props.c17 import _cex
from vf.pysym.harness import decide
from vf.pysym.values import ModelRaise, SObj

ASSUMPTIONS = [
    "reference writer vf/harness/refwriter.py emits the header (validated each run against the independent reference "
    "reader vf/ref7z.py and, in replays, against real archives)",
    "decoder contract stub (vf/harness/extract.py): returns the next r bytes of the folder's ideal stream, 0<=r<=remaining, "
    "r<=max_length, r>=1 while output remains; consumes at most the declared packed size; paths needing more than "
    "`unroll` decoder calls per member are cut (bounded) and counted",
    "CRC of decoded data = identity of the byte range hashed (CRCF(folder,start,end)); intact archive: the stored digest of "
    "member i equals CRCF of exactly its range",
    "NUMBER token summary justified by C17.a/b; get_memory_limit() arbitrary >= 1",
    "B.section_differential: the reference parsers of vf/ref7z.py are the oracle; they follow the format description and, "
    "where it is ambiguous, 7-Zip's reader (packed streams need sizes); anti-items, external data and archive properties are "
    "refused by the reference, i.e. outside; declared counts > 8 are cut; SubstreamsInfo is parsed in the context of two "
    "one-coder folders of 5 and 7 bytes, the second with a folder CRC; what only py7zr accepts is counted, not judged",
]


def eq(eng, a, b):
    return eng.compare(ast.Eq(), a, b)


def _sig(kind, pattern, folders, opts):
    interleaved = False
    k = 0
    data_pos = [i for i, c in enumerate(pattern) if c in "fl"]
    for n in folders:
        grp = data_pos[k:k + n]
        if grp and any(pattern[j] in "ed" for j in range(grp[0], grp[-1])):
            interleaved = True
        k += n
    return {"obligation": kind, "multi_folder": len(folders) > 1, "interleaved_empty_entry": interleaved,
            "packpos": bool(opts.get("packpos")), "crc_at": opts.get("crc_at", "sub"),
            "attrs": opts.get("attrs", "all"), "times": opts.get("times", "all")}


def listing(pattern, folders, opts):
    r = ObResult(bounds="layout %s: entries %s, folders %s; sizes (40 bit), CRCs (32), mtimes (63), pack sizes symbolic"
                        % (RC.shape_name(pattern, folders, opts), pattern or "-", folders))
    eng = RC.mk_engine()
    sym = RC.symbols(eng, pattern)

    def harness(e):
        entries, layout = RC.build(e, pattern, folders, opts, sym)
        try:
            z, fp, w = X.setup_read(e, entries, layout)
        except ModelRaise as ex:
            return dict(exc=ex.name, args=str(ex.eargs)[:100])
        out = []
        hdr = z.attrs["header"]
        fobjs = hdr.attrs["main_streams"].attrs["unpackinfo"].attrs["folders"] if hdr.attrs.get("main_streams") else []
        for af in e.iterate(z.attrs["files"]):
            fi = af.attrs["_file_info"]
            fo = fi.get("folder")
            out.append(dict(filename=fi.get("filename"), emptystream=fi.get("emptystream"), size=fi.get("uncompressed"),
                            digest=fi.get("digest"), folder=(fobjs.index(fo) if fo is not None else None),
                            attributes=fi.get("attributes"), mtime=fi.get("lastwritetime"),
                            is_dir=e.models.getattr(e, af, "is_directory"), id=af.attrs["id"]))
        # ids of the per-folder lists must be the ids of the same members in the global list
        folder_ids = []
        for fo in fobjs:
            fl = fo.attrs.get("files")
            folder_ids.append([(af.attrs["id"], af.attrs["_file_info"].get("filename")) for af in e.iterate(fl)] if fl is not None else [])
        return dict(files=out, entries=entries, world=w, folder_ids=folder_ids)

    def post(o):
        if "exc" in o:
            return False
        c = [len(o["files"]) == len(pattern)]
        w = o["world"]
        for i, (f, en) in enumerate(zip(o["files"], o["entries"])):
            k = en["kind"]
            c.append(f["filename"] == en["name"])
            c.append(f["emptystream"] == (k in "ed"))
            c.append(f["id"] == i)
            if k in "fl":
                fi_, off, size = w.member_range[i]
                c.append(f["folder"] == fi_)
                c.append(eq(eng, f["size"], size))
                if en.get("crc_defined", True) is False:
                    c.append(f["digest"] is None)       # no CRC stored for this member: none reported
                elif opts.get("crc_at", "sub") != "none" and (opts.get("crc_at") != "folder" or folders[fi_] == 1):
                    c.append(f["digest"] is not None)
                    if f["digest"] is not None:
                        c.append(eq(eng, f["digest"], en["crc"]))
            else:
                c.append(f["folder"] is None)
                c.append(f["size"] == 0)
            c.append((f["attributes"] is None) == (en["attributes"] is None))
            if en["attributes"] is not None and f["attributes"] is not None:
                c.append(eq(eng, f["attributes"], en["attributes"]))
            c.append((f["mtime"] is None) == (en["mtime"] is None))
            if en["mtime"] is not None and f["mtime"] is not None:
                c.append(eq(eng, f["mtime"], en["mtime"]))
            c.append(f["is_dir"] == (k == "d"))
        return c

    decide(eng, harness, post, RC.inputs_of(sym, pattern, folders), r,
           describe=lambda o: o.get("exc") or "%d members mapped" % len(o["files"]))
    r.note = (r.note + " cut_paths=%d" % eng.cut_paths).strip()
    _cex(r, "listing", lambda w_: _replay_spec("listing", pattern, folders, opts, w_), signature=lambda w_: _sig("listing", pattern, folders, opts))
    return r


def extract_all(pattern, folders, opts, unroll=2, by_path=False):
    r = ObResult(bounds="layout %s opened %s; extractall(factory); <= %d decoder calls per member; sizes/CRCs/pack sizes symbolic"
                        % (RC.shape_name(pattern, folders, opts), "by path (parallel branch run with a sequential thread "
                           "stand-in: one schedule)" if by_path else "from a stream", unroll))
    eng = RC.mk_engine(unroll=unroll)
    sym = RC.symbols(eng, pattern)

    def harness(e):
        entries, layout = RC.build(e, pattern, folders, opts, sym)
        try:
            z, fp, w = X.setup_read(e, entries, layout, name=("arch.7z" if by_path else None))
        except ModelRaise as ex:
            return dict(exc="open:" + ex.name)
        fac = X.StubFactory(w)
        try:
            e.method(z, "extractall", factory=fac)
        except ModelRaise as ex:
            return dict(exc=ex.name + str(ex.eargs)[:80], world=w, entries=entries)
        return dict(world=w, entries=entries, fp=fp)

    def post(o):
        if "exc" in o:
            return False
        return delivery_conditions(eng, o["world"], o["entries"], set(range(len(pattern)))) + [len(o["fp"].writes) == 0]

    decide(eng, harness, post, RC.inputs_of(sym, pattern, folders), r,
           describe=lambda o: o.get("exc") or "delivered %s" % sorted(X.delivered(o["world"]).keys()))
    r.note = (r.note + " cut_paths=%d" % eng.cut_paths).strip()
    _cex(r, "extract_all", lambda w_: _replay_spec("extract", pattern, folders, opts, w_, by_path),
         signature=lambda w_: _sig("extract_all", pattern, folders, opts))
    return r


def delivery_conditions(eng, w, entries, selected):
    """exactly the selected non-directory members are delivered, each with exactly its byte range"""
    c = []
    got = X.delivered(w)
    want = {}
    for i, en in enumerate(entries):
        if i in selected and en["kind"] != "d":
            want.setdefault(en["name"], []).append(i)
    c.append(sorted(got.keys()) == sorted(want.keys()))
    for name, idxs in want.items():
        prods = got.get(name, [])
        c.append(len(prods) == len(idxs))
        for i, chunks in zip(idxs, prods):
            en = entries[i]
            if en["kind"] == "e":
                c.append(len(chunks) == 0)
                continue
            fi_, off, size = w.member_range[i]
            total = 0
            for j, (k, coff, n) in enumerate(chunks):
                c.append(k == fi_)
                c.append(eq(eng, coff, eng.binop(ast.Add(), off, total)))
                total = eng.binop(ast.Add(), total, n)
            c.append(eq(eng, total, size))
    # every folder is decoded from where its packed stream lies: 32 + packpos + sum of the preceding pack sizes
    for (k, start) in w.read_starts:
        c.append(eq(eng, start, w.pack_start[k]))
    return c


def tree_names(pattern):
    """member names forming a consistent tree for the kinds of `pattern` (files may live in earlier directories)"""
    out, lastdir = [], None
    for i, k in enumerate(pattern):
        if k == "d":
            out.append("dir%d" % i)
            lastdir = out[-1]
        else:
            out.append(("%s/m%d.bin" % (lastdir, i)) if lastdir else "m%d.bin" % i)
    return out


def extract_to_path(pattern, folders, opts):
    """extractall(path) through the real _extract incl. its post-pass (utime / chmod) on the filesystem model"""
    from vf.harness import fakefs as F
    from vf.pysym.models import Native

    r = ObResult(bounds="layout %s; extractall(<directory>) on the filesystem model; sizes/CRCs/timestamps symbolic; one decoder "
                        "call per member" % RC.shape_name(pattern, folders, opts))
    eng = RC.mk_engine(unroll=1)
    sym = RC.symbols(eng, pattern)

    class TS(Native):
        def __init__(self, v):
            self.v = v

        def totimestamp(self, e):
            return ("ts", self.v)

    def harness(e):
        fs = F.FS()
        for loc in [("/", "base"), ("/", "base", "jail")]:
            fs.nodes[loc] = ("dir",)
        F.install(e, fs, "/base/jail")
        entries, layout = RC.build(e, pattern, folders, opts, sym, names=tree_names(pattern))
        try:
            z, fp, w = X.setup_read(e, entries, layout, consume="all-at-once")
        except ModelRaise as ex:
            return dict(exc="open:" + ex.name)
        # FILETIME -> float conversion is the subject of C02; here only *whether* and *with which stored value* it is applied
        e.class_models[("py7zr.helpers", "ArchiveTimestamp")] = lambda e_, x: TS(e_.models._int(e_, x))
        try:
            e.method(z, "extractall", F.FakePath(fs, "/base/jail", "/base/jail"))
        except ModelRaise as ex:
            return dict(exc=ex.name + str(ex.eargs)[:80])
        finally:
            e.class_models[("py7zr.helpers", "ArchiveTimestamp")] = lambda e_, x: e_.models._int(e_, x)
        return dict(fs=fs, entries=entries, world=w)

    def post(o):
        if "exc" in o:
            return False
        fs, entries, w = o["fs"], o["entries"], o["world"]
        c = []
        times, modes = fs.__dict__.get("times", {}), fs.__dict__.get("modes", {})
        for i, en in enumerate(entries):
            loc = ("/", "base", "jail") + tuple(en["name"].split("/"))
            if en["kind"] == "d":
                c.append(fs.kind(loc) == "dir")
            elif en["kind"] == "l":
                continue
            else:
                node = fs.nodes.get(loc)
                c.append(node is not None and node[0] == "file")
                if node is None or node[0] != "file":
                    continue
                if en["kind"] == "f":
                    fi_, off, size = w.member_range[i]
                    chunks = node[1].chunks if node[1] is not None else []
                    total = 0
                    for ch in chunks:
                        c.append(ch.folder == fi_)
                        total = eng.binop(ast.Add(), total, ch.n)
                    c.append(eq(eng, total, size))
            if en["kind"] in "fed" and not (en["kind"] == "d" and False):
                # modification time is applied exactly when the archive defines one, with the stored value
                if en["mtime"] is not None:
                    t = times.get(loc)
                    c.append(t is not None and isinstance(t[0], tuple) and t[0][0] == "ts")
                    if t is not None and isinstance(t[0], tuple):
                        c.append(eq(eng, t[0][1], en["mtime"]))
                else:
                    c.append(loc not in times)
                if en["attributes"] is not None and (en["attributes"] & 0x8000):
                    c.append(modes.get(loc) is not None and eq(eng, modes.get(loc), (en["attributes"] >> 16) & 0o7777) is not False)
        # nothing outside the destination
        c.append(all(loc[:3] == ("/", "base", "jail") for (op, loc) in fs.effects))
        return c

    decide(eng, harness, post, RC.inputs_of(sym, pattern, folders), r, describe=lambda o: o.get("exc") or "%d effects" % len(o["fs"].effects))
    _cex(r, "extract_to_path", lambda w_: dict(module="vf.props.c06", func="replay_to_path", kwargs=dict(
        pattern=pattern, folders=folders, opts=opts, witness={k: int(v) for k, v in w_.items() if isinstance(v, int)})),
         signature=lambda w_: dict(_sig("extract_to_path", pattern, folders, opts)))
    return r


def replay_to_path(pattern, folders, opts, witness):
    import os
    import shutil
    import tempfile

    import py7zr

    img, entries, datas = concrete_case(pattern, folders, opts, witness, names=tree_names(pattern))
    d = tempfile.mkdtemp(prefix="vf_c06p_")
    try:
        try:
            py7zr.SevenZipFile(io.BytesIO(img)).extractall(path=d)
        except Exception as e:  # noqa
            return True, "extraction of a valid archive to a directory failed: %r" % (e,)
        di = 0
        for en in entries:
            p = os.path.join(d, en["name"])
            if en["kind"] == "d":
                if not os.path.isdir(p):
                    return True, "directory %s missing" % en["name"]
            elif en["kind"] in "fe":
                want = datas[di] if en["kind"] == "f" else b""
                if not os.path.isfile(p) or open(p, "rb").read() != want:
                    return True, "member %s missing or different" % en["name"]
            if en["kind"] in "fl":
                di += 1
        return False, "tree as the format assigns"
    finally:
        shutil.rmtree(d, ignore_errors=True)


# ---------------------------------------------------------------------------------------- replays
def concrete_case(pattern, folders, opts, witness, names=None):
    """concrete archive (Copy codec) for a witness: returns (image bytes, expected {name: bytes or None})"""
    names = names or RC.NAMES
    entries, datas = [], []
    for i, k in enumerate(pattern):
        size = int(witness.get("size%d" % i, 0)) % 50 if k in "fl" else 0
        if k in "fl" and size == 0 and int(witness.get("size%d" % i, 0)) != 0:
            size = 1 + i
        data = bytes(((i * 37 + j) & 0xFF) for j in range(size))
        e = dict(kind=k, name=names[i], size=size, crc=zlib.crc32(data))
        undefined_attr = opts.get("attrs") == "partial" and i % 2 == 1
        undefined_time = opts.get("times") == "partial" and i % 2 == 0
        e["attributes"] = None if (undefined_attr or opts.get("attrs") == "none") else W.default_attributes(k)
        e["mtime"] = None if (undefined_time or opts.get("times") == "none") else 132000000000000000 + i
        if opts.get("ctime"):
            e["ctime"] = 131000000000000000 + i
        if opts.get("digests") == "partial" and k in "fl" and sum(1 for c_ in pattern[:i] if c_ in "fl") % 2 == 1:
            e["crc_defined"] = False
        entries.append(e)
        if k in "fl":
            datas.append(data)
    packs, k = [], 0
    for n in folders:
        packs.append(sum(len(d) for d in datas[k:k + n]))
        k += n
    layout = dict(folders=list(folders), ncoders=[1] * len(folders), packsizes=packs, crc_at=opts.get("crc_at", "sub"),
                  omit_numunpack=opts.get("omit_numunpack", True), dummy=opts.get("dummy"),
                  emptyfile_vector=opts.get("emptyfile_vector", False), coder_ids=[b"\x00"],
                  omit_substreams=opts.get("omit_substreams", False))
    packed = b"".join(datas)
    gap = b""
    if opts.get("packpos"):
        gap = b"JUNKJUNK"
        layout["packpos"] = len(gap)
    if opts.get("bind_style"):
        layout["bind_style"] = opts["bind_style"]
        layout["ncoders"] = [opts.get("ncoders", 1)] * len(folders)   # (two Copy coders: enough for what the header says)
    if opts.get("inter"):
        layout["inter_sizes"] = {(fi, ci): opts["inter"] for fi in range(len(folders)) for ci in range(opts.get("ncoders", 1))}
    if opts.get("packcrc"):
        layout["packcrc"] = True
        if opts.get("packcrc_defined"):
            layout["packcrc_defined"] = list(opts["packcrc_defined"])
        k, layout["packcrcs"] = 0, []
        for n in folders:
            layout["packcrcs"].append(zlib.crc32(b"".join(datas[k:k + n])))
            k += n
    hb = bytes(W.write_header(entries, layout, concrete=True))
    img = W.seal(hb, packed, gap)
    return img, entries, datas


def _replay_spec(what, pattern, folders, opts, witness, by_path=False):
    return dict(module="vf.props.c06", func="replay", kwargs=dict(what=what, pattern=pattern, folders=folders, opts=opts, by_path=by_path,
                                                                  witness={k: int(v) for k, v in witness.items() if isinstance(v, int)}))


def replay(what, pattern, folders, opts, witness, targets=None, by_path=False):
    """open the concrete counterpart with the real library (from a BytesIO, or by file name so that multi-folder
    archives take the thread-parallel branch) and compare with the reference reader's view"""
    import py7zr
    from py7zr.io import BytesIOFactory
    from vf import ref7z

    img, entries, datas = concrete_case(pattern, folders, opts, witness)
    import struct

    ofs, size, _ = struct.unpack("<QQL", img[12:32])
    h = ref7z.rd_header(io.BytesIO(img[32 + ofs:32 + ofs + size]))
    mm = ref7z.member_map(h)
    di = 0
    expect = {}
    for en, m in zip(entries, mm):
        if en["kind"] in "fl":
            expect[en["name"]] = datas[di]
            di += 1
        elif en["kind"] == "e":
            expect[en["name"]] = b""
    import os
    import tempfile

    tmpd = tempfile.mkdtemp(prefix="vf_c06_") if by_path else None
    try:
        if by_path:
            open(os.path.join(tmpd, "a.7z"), "wb").write(img)
            z = py7zr.SevenZipFile(os.path.join(tmpd, "a.7z"))
        else:
            z = py7zr.SevenZipFile(io.BytesIO(img))
        if what == "listing":
            for f, en, m in zip(z.list(), entries, mm):
                if f.filename != en["name"] or f.uncompressed != m["size"] or f.is_directory != (en["kind"] == "d"):
                    return True, "listing differs for %s: size %s vs %s, is_directory %s" % (en["name"], f.uncompressed, m["size"], f.is_directory)
                if m["crc"] is not None and f.crc32 != m["crc"]:
                    return True, "crc32 of %s reported %s, format assigns %s" % (en["name"], f.crc32, m["crc"])
            return False, "listing agrees"
        fac = BytesIOFactory(10 ** 6)
        if targets is None:
            z.extractall(factory=fac)
            want = expect
        else:
            z.extract(targets=targets, factory=fac)
            want = {k: v for k, v in expect.items() if k in targets}
        got = {k: v.read() for k, v in fac.products.items()}
        if got != want:
            return True, "delivered %s, format assigns %s" % ({k: len(v) for k, v in got.items()}, {k: len(v) for k, v in want.items()})
        return False, "extraction agrees"
    except Exception as e:  # noqa
        return True, "valid archive rejected / failed: %r" % (e,)
    finally:
        if tmpd:
            import shutil

            shutil.rmtree(tmpd, ignore_errors=True)


# ------------------------------------------------------------------------------------------ units
QUICK_EXTRA = [("fdff", [2, 1], {}), ("ff", [1, 1], {"packpos": True})]


# ------------------------------------------------------------------ B. section parsers vs the reference on every byte string
def section_differential(section, nbytes, prefix=""):
    """every byte string of `nbytes` bytes given to py7zr's section parser AND to the reference parser (both interpreted
    on the same symbolic bytes): whatever the reference accepts, py7zr accepts with the same meaning"""
    from vf.pysym.engine import BudgetExceeded, Engine
    from vf.pysym.values import SFile

    AI_, REF = "py7zr.archiveinfo", "vf.ref7z"
    pre = list(bytes.fromhex(prefix))
    r = ObResult(bounds="%s: %severy byte string of %d bytes (all symbolic), declared counts <= 8; py7zr's _read vs the "
                        "reference parser written from the format description" % (
                            section, ("the fixed bytes %s followed by " % prefix) if prefix else "", nbytes))
    eng = Engine([AI_, REF], intmode="bv", unroll=64)
    eng.count_budget = 8
    bs = [eng.sym_int("b%d" % i, 8) for i in range(nbytes)]
    stats = {"both": 0, "lenient": 0}
    if section == "FilesInfo":
        # summary of read_utf16 (its own round trip is C17.d): 2-byte units up to the terminator; at the end of the data the
        # real loop idles through its 65536 iterations and returns what it has - the summary stops right there
        from vf.pysym.models import utf16_decode
        from vf.pysym.values import SBytes

        def read_utf16_summary(e_, file):
            acc = []
            while True:
                ch = e_.models.call_method(e_, file, "read", [2], {})
                items = list(ch.items) if hasattr(ch, "items") else list(ch)
                if len(items) < 2:
                    acc.extend(items)
                    break
                if e_.branch(z3.And(e_.lift(items[0]) == 0, e_.lift(items[1]) == 0)):
                    break
                acc.extend(items)
            return utf16_decode(e_, SBytes(acc))

        eng.overrides[(AI_, "read_utf16")] = read_utf16_summary

    def ctx_folders(e, kind):
        """SubstreamsInfo needs the folders parsed before it: two folders, 5 and 7 bytes, the second with a CRC"""
        if kind == "py":
            out = []
            for sz, crc in ((5, None), (7, 0x11223344)):
                fo = e.new(e.cls(AI_, "Folder"))
                fo.attrs["unpacksizes"] = [sz]
                fo.attrs["coders"] = [{"method": b"\x00", "numinstreams": 1, "numoutstreams": 1, "properties": None}]
                fo.attrs["digestdefined"], fo.attrs["crc"] = crc is not None, crc
                out.append(fo)
            return out
        if kind == "ref-rewritten":
            # py7zr's UnpackInfo.write stores no folder CRCs: in what it writes back every digest travels in SubStreamsInfo
            return [{"coders": [], "bind": [], "packed": [0], "total_out": 1, "unpacksizes": [5], "crc": (False, 0)},
                    {"coders": [], "bind": [], "packed": [0], "total_out": 1, "unpacksizes": [7], "crc": (False, 0)}]
        return [{"coders": [], "bind": [], "packed": [0], "total_out": 1, "unpacksizes": [5], "crc": (False, 0)},
                {"coders": [], "bind": [], "packed": [0], "total_out": 1, "unpacksizes": [7], "crc": (True, 0x11223344)}]

    def harness(e):
        f1, f2 = SFile(pre + list(bs)), SFile(pre + list(bs))
        o = {}
        try:
            if section == "PackInfo":
                o["ref"] = e.call(REF, "rd_pack_info", f2)
            elif section == "UnpackInfo":
                o["ref"] = e.call(REF, "rd_unpack_info", f2)
            elif section == "FilesInfo":
                o["ref"] = e.call(REF, "rd_files_info", f2)
            else:
                o["ref"] = e.call(REF, "rd_substreams", f2, ctx_folders(e, "ref"))
        except ModelRaise as ex:
            o["ref_exc"] = ex.name
        except BudgetExceeded:
            return dict(cut=True)
        if section == "FilesInfo" and "ref" in o:
            for rf in o["ref"]:
                for u in rf.get("name_units", []):
                    e.assume(z3.Or(e.lift(u) < 0xD800, e.lift(u) > 0xDFFF))   # valid UTF-16 without surrogates (astral names: C17)
        obj = e.new(e.cls(AI_, section))
        try:
            if section == "SubstreamsInfo":
                e.method(obj, "_read", f1, 2, ctx_folders(e, "py"))
            else:
                e.method(obj, "_read", f1)
            o["py"] = obj
        except ModelRaise as ex:
            o["py_exc"] = ex.name
        except BudgetExceeded:
            return dict(cut=True)
        o["pos"] = (f1.pos, f2.pos)
        if "ref" in o and "py" in o and section != "FilesInfo":
            # read -> write: what py7zr writes back from the state it has just read must mean the same to the reference
            g = SFile()
            try:
                e.method(obj, "write", g)
                items = list(g.items)
                h = SFile(items[1:])    # (the section id byte is consumed by the caller of the section parser)
                if section == "PackInfo":
                    o["ref2"] = e.call(REF, "rd_pack_info", h)
                elif section == "UnpackInfo":
                    o["ref2"] = e.call(REF, "rd_unpack_info", h)
                else:
                    cnt = obj.attrs.get("num_unpackstreams_folders") or []
                    o["ref2"] = e.call(REF, "rd_substreams", h, ctx_folders(e, "ref-rewritten")) if len(cnt) else None
                o["rewritten_all_read"] = (h.pos == len(h.items))
            except ModelRaise as ex:
                o["rewrite_exc"] = ex.name
            except BudgetExceeded:
                return dict(cut=True)
        if "ref" in o and "py" in o:
            # defined-flags are decided on this path (both parsers branched on them): make them concrete here, inside the path
            cb = lambda v: v if isinstance(v, bool) else bool(e.branch(e.truth(v)))
            R, P = o["ref"], o["py"].attrs
            R2 = o.get("ref2")
            if section == "PackInfo":
                R["crcs"] = [(cb(d), v) for d, v in R["crcs"]]
                P["digestdefined"] = [cb(d) for d in P["digestdefined"]]
                if R2 is not None:
                    R2["crcs"] = [(cb(d), v) for d, v in R2["crcs"]]
            elif section == "UnpackInfo":
                for rf in R:
                    rf["crc"] = (cb(rf["crc"][0]), rf["crc"][1])
                for pf in P["folders"]:
                    pf.attrs["digestdefined"] = cb(pf.attrs.get("digestdefined", False))
            elif section == "FilesInfo":
                for rf in R:
                    for k_ in ("emptystream", "emptyfile", "anti"):
                        rf[k_] = cb(rf[k_])
                for pf in P["files"]:
                    for k_ in ("emptystream", "emptyfile"):
                        if k_ in pf:
                            pf[k_] = cb(pf[k_])
            else:
                R["digests"] = [[(cb(d), v) for d, v in row] for row in R["digests"]]
                P["digestsdefined"] = [cb(d) for d in P["digestsdefined"]]
                if R2 is not None:
                    R2["digests"] = [[(cb(d), v) for d, v in row] for row in R2["digests"]]
        return o

    def eq(a, b):
        return eng.compare(ast.Eq(), a, b)

    def post(o):
        if "cut" in o or "ref_exc" in o:
            if "ref_exc" in o and "py" in o:
                stats["lenient"] += 1
            return None
        if "py_exc" in o:
            return False          # a section the format accepts is rejected
        stats["both"] += 1
        R, P = o["ref"], o["py"].attrs
        c = [o["pos"][0] == o["pos"][1]]
        if section == "PackInfo":
            n = len(R["crcs"])
            c += [eq(P["packpos"], R["packpos"]), eq(P["numstreams"], n)]
            if R["sizes"]:
                c.append(len(P["packsizes"]) == len(R["sizes"]))
                c += [eq(a, b) for a, b in zip(P["packsizes"], R["sizes"])]
            defined = [d for d, _ in R["crcs"]]
            c.append(list(P["digestdefined"]) == defined if P["digestdefined"] else not any(defined))
            vals = [v for d, v in R["crcs"] if d]
            c.append(len(P["crcs"]) == len(vals))
            c += [eq(a, b) for a, b in zip(P["crcs"], vals)]
        elif section == "UnpackInfo":
            fs = P["folders"]
            c.append(len(fs) == len(R))
            for pf, rf in zip(fs, R):
                a = pf.attrs
                c.append(len(a["coders"]) == len(rf["coders"]))
                for pc, rc in zip(a["coders"], rf["coders"]):
                    pm, rm = pc["method"], rc["method"]
                    c.append(eng.compare(ast.Eq(), pm, rm) if len(eng.models._len(eng, rm) * [0]) > 0 else True)
                    c += [eq(pc["numinstreams"], rc["nin"]), eq(pc["numoutstreams"], rc["nout"])]
                    c.append((pc["properties"] is None) == (rc["props"] is None))
                    if pc["properties"] is not None and rc["props"] is not None:
                        c.append(eng.compare(ast.Eq(), pc["properties"], rc["props"]))
                c.append(len(a["bindpairs"]) == len(rf["bind"]))
                for pb, (ra, rb) in zip(a["bindpairs"], rf["bind"]):
                    c += [eq(pb.attrs["incoder"], ra), eq(pb.attrs["outcoder"], rb)]
                c.append(len(a["packed_indices"]) == len(rf["packed"]))
                c += [eq(x, y) for x, y in zip(a["packed_indices"], rf["packed"])]
                c.append(len(a["unpacksizes"]) == len(rf["unpacksizes"]))
                c += [eq(x, y) for x, y in zip(a["unpacksizes"], rf["unpacksizes"])]
                d, v = rf["crc"]
                c.append(a["digestdefined"] == d)
                if d:
                    c.append(eq(a["crc"], v))
        elif section == "FilesInfo":
            if any(rf["anti"] for rf in R):
                return None       # anti-items: a feature py7zr does not support (it says so with Bad7zFile) - not compared
            c.append(len(P["files"]) == len(R))
            for pf, rf in zip(P["files"], R):
                c.append(bool(pf.get("emptystream")) == rf["emptystream"])
                if rf["emptystream"]:
                    c.append(bool(pf.get("emptyfile", False)) == rf["emptyfile"])
                for pk, rk in (("lastwritetime", "mtime"), ("creationtime", "ctime"), ("lastaccesstime", "atime"), ("attributes", "attributes"),
                               ("startpos", "startpos")):
                    if rk in rf:
                        c.append((pf.get(pk) is None) == (rf[rk] is None))
                        if rf[rk] is not None and pf.get(pk) is not None:
                            c.append(eq(pf[pk], rf[rk]))
                    else:
                        c.append(pf.get(pk) is None)
                if "name_units" in rf:
                    nm = pf.get("filename")
                    c.append(nm is not None)
                    if nm is not None:
                        cps = [ord(ch_) for ch_ in nm] if isinstance(nm, str) else list(nm.cps)
                        c.append(len(cps) == len(rf["name_units"]))
                        for cp, u in zip(cps, rf["name_units"]):
                            # (py7zr shows backslashes as slashes; surrogate units are assumed away below)
                            c.append(z3.If(eng.lift(u) == 0x5C, eng.lift(cp) == 0x2F, eng.lift(cp) == eng.lift(u)))
        else:
            counts = R["counts"]
            c.append(len(P["num_unpackstreams_folders"]) == len(counts))
            c += [eq(x, y) for x, y in zip(P["num_unpackstreams_folders"], counts)]
            flat_sizes = [x for row in R["sizes"] for x in row]
            flat_dig = [x for row in R["digests"] for x in row]
            if P.get("unpacksizes") is not None:
                c.append(len(P["unpacksizes"]) == len(flat_sizes))
                c += [eq(x, y) for x, y in zip(P["unpacksizes"], flat_sizes)]
            c.append(len(P["digestsdefined"]) == len(flat_dig))
            for dd, dv, (rd, rv) in zip(P["digestsdefined"], P["digests"], flat_dig):
                c.append(dd == rd)
                if rd:
                    c.append(eq(dv, rv))
        # read -> write -> reference
        if section != "FilesInfo":
            c.append("rewrite_exc" not in o)
            R2 = o.get("ref2")
            if R2 is not None and "rewrite_exc" not in o:
                c.append(o["rewritten_all_read"])
                if section == "PackInfo":
                    c.append(eq(R2["packpos"], R["packpos"]))
                    c.append(len(R2["sizes"]) == len(R["sizes"]) and len(R2["crcs"]) == len(R["crcs"]))
                    c += [eq(a, b) for a, b in zip(R2["sizes"], R["sizes"])]
                    for (d2, v2), (d1, v1) in zip(R2["crcs"], R["crcs"]):
                        c.append(d2 == d1)
                        if d1 and d2:
                            c.append(eq(v2, v1))
                elif section == "UnpackInfo":
                    c.append(len(R2) == len(R))
                    for f2_, f1_ in zip(R2, R):
                        c.append(len(f2_["coders"]) == len(f1_["coders"]) and len(f2_["unpacksizes"]) == len(f1_["unpacksizes"])
                                 and len(f2_["bind"]) == len(f1_["bind"]) and len(f2_["packed"]) == len(f1_["packed"]))
                        c += [eq(a, b) for a, b in zip(f2_["unpacksizes"], f1_["unpacksizes"])]
                        c += [eq(a, b) for a, b in zip(f2_["packed"], f1_["packed"])]
                        for (a1, b1), (a2, b2) in zip(f1_["bind"], f2_["bind"]):
                            c += [eq(a1, a2), eq(b1, b2)]
                        for c2, c1 in zip(f2_["coders"], f1_["coders"]):
                            c += [eq(c2["nin"], c1["nin"]), eq(c2["nout"], c1["nout"]), (c2["props"] is None) == (c1["props"] is None)]
                else:
                    c.append(len(R2["counts"]) == len(R["counts"]))
                    c += [eq(a, b) for a, b in zip(R2["counts"], R["counts"])]
                    fs2, fs1 = [x for row in R2["sizes"] for x in row], [x for row in R["sizes"] for x in row]
                    c.append(len(fs2) == len(fs1))
                    c += [eq(a, b) for a, b in zip(fs2, fs1)]
                    fd2, fd1 = [x for row in R2["digests"] for x in row], [x for row in R["digests"] for x in row]
                    c.append(len(fd2) == len(fd1))
                    for (d2, v2), (d1, v1) in zip(fd2, fd1):
                        c.append(d2 == d1)
                        if d1 and d2:
                            c.append(eq(v2, v1))
        return c

    decide(eng, harness, post, {"b%d" % i: b for i, b in enumerate(bs)}, r, max_cex=4,
           describe=lambda o: "cut" if "cut" in o else "ref:%s py:%s" % (o.get("ref_exc", "ok"), o.get("py_exc", "ok")))
    r.note = (r.note + " paths accepted by both: %d; accepted by py7zr only (lenient, not a violation): %d" % (stats["both"], stats["lenient"])).strip()
    _cex(r, "section_differential", lambda w_: dict(module="vf.props.c06", func="replay_section", kwargs=dict(
        section=section, data=prefix + bytes(int(w_["b%d" % i]) for i in range(nbytes)).hex())),
         signature=lambda w_: {"obligation": "section_differential", "section": section})
    return r


def replay_section(section, data):
    """the same bytes through the natively executed py7zr parser and the natively executed reference"""
    import py7zr.archiveinfo as ai
    from vf import ref7z

    raw = bytes.fromhex(data)

    def folders_py():
        out = []
        for sz, crc in ((5, None), (7, 0x11223344)):
            fo = ai.Folder()
            fo.unpacksizes = [sz]
            fo.coders = [{"method": b"\x00", "numinstreams": 1, "numoutstreams": 1, "properties": None}]
            fo.digestdefined, fo.crc = crc is not None, crc
            out.append(fo)
        return out

    folders_ref = [{"coders": [], "bind": [], "packed": [0], "total_out": 1, "unpacksizes": [5], "crc": (False, 0)},
                   {"coders": [], "bind": [], "packed": [0], "total_out": 1, "unpacksizes": [7], "crc": (True, 0x11223344)}]
    f2 = io.BytesIO(raw)
    try:
        R = {"PackInfo": ref7z.rd_pack_info, "UnpackInfo": ref7z.rd_unpack_info, "FilesInfo": ref7z.rd_files_info}[section](f2) \
            if section != "SubstreamsInfo" else ref7z.rd_substreams(f2, folders_ref)
    except Exception as e:  # noqa
        return False, "the reference rejects these bytes too: %r" % (e,)
    f1 = io.BytesIO(raw)
    try:
        if section == "PackInfo":
            P = ai.PackInfo()._read(f1)
            got = dict(packpos=P.packpos, n=P.numstreams, sizes=list(P.packsizes), defined=list(P.digestdefined), crcs=list(P.crcs))
            want = dict(packpos=R["packpos"], n=len(R["crcs"]), sizes=R["sizes"] or got["sizes"],
                        defined=[d for d, _ in R["crcs"]] if any(d for d, _ in R["crcs"]) else got["defined"],
                        crcs=[v for d, v in R["crcs"] if d])
        elif section == "UnpackInfo":
            P = ai.UnpackInfo()
            P._read(f1)
            got = [dict(coders=[(c["method"], c["numinstreams"], c["numoutstreams"], c["properties"]) for c in fo.coders],
                        bind=[(b.incoder, b.outcoder) for b in fo.bindpairs], packed=list(fo.packed_indices),
                        sizes=list(fo.unpacksizes), crc=(bool(fo.digestdefined), fo.crc if fo.digestdefined else 0)) for fo in P.folders]
            want = [dict(coders=[(c["method"] or b"\x00", c["nin"], c["nout"], c["props"]) for c in fo["coders"]], bind=list(fo["bind"]),
                         packed=list(fo["packed"]), sizes=list(fo["unpacksizes"]), crc=(fo["crc"][0], fo["crc"][1] if fo["crc"][0] else 0)) for fo in R]
        elif section == "FilesInfo":
            P = ai.FilesInfo()
            P._read(f1)
            tv = lambda x: None if x is None else int(x)
            got = [dict(emptystream=bool(f.get("emptystream")), emptyfile=bool(f.get("emptyfile", False)) if f.get("emptystream") else False,
                        mtime=tv(f.get("lastwritetime")), ctime=tv(f.get("creationtime")), atime=tv(f.get("lastaccesstime")),
                        attributes=f.get("attributes"), startpos=f.get("startpos")) for f in P.files]
            want = [dict(emptystream=f["emptystream"], emptyfile=f["emptyfile"], mtime=f.get("mtime"), ctime=f.get("ctime"), atime=f.get("atime"),
                         attributes=f.get("attributes"), startpos=f.get("startpos")) for f in R]
        else:
            P = ai.SubstreamsInfo()
            P._read(f1, 2, folders_py())
            flat_dig = [x for row in R["digests"] for x in row]
            got = dict(counts=list(P.num_unpackstreams_folders), sizes=list(P.unpacksizes) if P.unpacksizes is not None else None,
                       digests=[(bool(d), v if d else 0) for d, v in zip(P.digestsdefined, P.digests)])
            want = dict(counts=R["counts"], sizes=[x for row in R["sizes"] for x in row] if P.unpacksizes is not None else None,
                        digests=[(bool(d), v if d else 0) for d, v in flat_dig])
    except Exception as e:  # noqa
        return True, "%s bytes %s: accepted by the reference (%s), py7zr raises %r" % (section, data, R, e)
    if f1.tell() != f2.tell():
        return True, "%s bytes %s: py7zr consumed %d bytes, the reference %d" % (section, data, f1.tell(), f2.tell())
    if got != want:
        return True, "%s bytes %s: py7zr %s, reference %s" % (section, data, got, want)
    if section == "FilesInfo":
        return False, "%s bytes %s: py7zr and the reference agree: %s" % (section, data, got)
    # read -> write -> reference
    out = io.BytesIO()
    try:
        P.write(out)
    except Exception as e:  # noqa
        return True, "%s bytes %s: read fine (%s) but writing the same state back raises %r" % (section, data, got, e)
    back = io.BytesIO(out.getvalue()[1:])
    folders_ref2 = [dict(fo, crc=(False, 0)) for fo in folders_ref]
    try:
        if section == "PackInfo":
            R2 = ref7z.rd_pack_info(back)
            same = (R2["packpos"], R2["sizes"], R2["crcs"]) == (R["packpos"], R["sizes"], R["crcs"])
        elif section == "UnpackInfo":
            R2 = ref7z.rd_unpack_info(back)
            strip = lambda fs: [dict(fo, crc=None) for fo in fs]
            same = strip(R2) == strip(R)
        else:
            if not P.num_unpackstreams_folders:
                return False, "nothing to write back"
            R2 = ref7z.rd_substreams(back, folders_ref2)
            same = R2 == R
    except Exception as e:  # noqa
        return True, "%s bytes %s: written back as %s, which the reference rejects: %r" % (section, data, out.getvalue().hex(), e)
    return (not same), "%s bytes %s: written back as %s = %s, read as %s" % (section, data, out.getvalue().hex(), R2, R)


def units(tier):
    M = "vf.props.c06"
    us = []
    shapes = RC.shapes(tier) + (QUICK_EXTRA if tier == "quick" else [])
    for sec, ns in (("PackInfo", (6,) if tier == "quick" else (6, 8)), ("UnpackInfo", (5,) if tier == "quick" else (5, 7)),
                    ("SubstreamsInfo", (4, 6) if tier == "quick" else (4, 7, 9))):
        for n in ns:
            us.append(Unit("B.section_differential[%s,%d bytes]" % (sec, n), M, "section_differential", dict(section=sec, nbytes=n), 3000))
    # the tail of UnpackInfo (unpack sizes are fixed, the CRC property and the end are free): two folders of one coder each
    UPRE = "0b0200" + "010100" + "010100" + "0c0507"
    for n in ((4, 10, 13) if tier == "quick" else (2, 4, 7, 10, 13, 14)):
        us.append(Unit("B.section_differential[UnpackInfo,2 folders + %d bytes]" % n, M, "section_differential",
                       dict(section="UnpackInfo", nbytes=n, prefix=UPRE), 3000))
    # one folder whose single coder is "complex" (own in/out stream counts, bind pairs, packed stream list): all of that free
    for n in ((7,) if tier == "quick" else (7, 9)):
        us.append(Unit("B.section_differential[UnpackInfo,complex coder + %d bytes]" % n, M, "section_differential",
                       dict(section="UnpackInfo", nbytes=n, prefix="0b01000111"), 3000))
    # FilesInfo: two files, one property id fixed, its size and content (and what follows) free
    for pre, ns in (("020e", (3, 4)), ("020e01c00f", (3, 4)), ("0214", (5, 6)), ("0215", (5,) if tier == "quick" else (5, 6)),
                    ("0218", (5, 6)), ("0219", (3, 4)), ("02", (3,)),
                    # Names property of fixed size 7 / 9 (11): the two names and what follows are free
                    ("02110700", (7,)), ("02110900", (9,))) + ((("02110b00", (11,)),) if tier == "thorough" else ()) + (
            # nine files: bit vectors that span two bytes
            (("090e", (4,)), ("090e02ff800f", (4,))) if tier == "thorough" else ()):
        for n in ns:
            us.append(Unit("B.section_differential[FilesInfo,%s + %d bytes]" % (pre, n), M, "section_differential",
                           dict(section="FilesInfo", nbytes=n, prefix=pre), 3000))
    # PackInfo with sizes fixed and the digest part free
    for n in ((3, 7, 11) if tier == "quick" else (3, 7, 11, 12, 13)):
        us.append(Unit("B.section_differential[PackInfo,2 streams + %d bytes]" % n, M, "section_differential",
                       dict(section="PackInfo", nbytes=n, prefix="0002090507"), 3000))
    for (p, f, o) in shapes:
        us.append(Unit("L.listing[%s]" % RC.shape_name(p, f, o), M, "listing", dict(pattern=p, folders=f, opts=o), 900))
    for (p, f, o) in shapes:
        us.append(Unit("X.extractall[%s]" % RC.shape_name(p, f, o), M, "extract_all",
                       dict(pattern=p, folders=f, opts=o, unroll=2 if tier == "quick" else 3), 1800))
    for (p, f, o) in [("fdf", [2], {}), ("fff", [2, 1], {"times": "partial"}), ("ffd", [2], {"attrs": "partial"}), ("fef", [1, 1], {"times": "none"})] + (
            [("fdf", [1, 1], {"attrs": "none"}), ("ff", [2], {"times": "partial", "attrs": "partial"})] if tier == "thorough" else []):
        us.append(Unit("D.extract_to_path[%s]" % RC.shape_name(p, f, o), M, "extract_to_path", dict(pattern=p, folders=f, opts=o), 1800))
    # the thread-parallel branch (multi-folder archive opened by path), workers run one after the other
    for (p, f, o) in [s_ for s_ in shapes if len(s_[1]) > 1][: (3 if tier == "quick" else 99)] + [("ff", [1, 1], {"packpos": True}), ("fdf", [1, 0, 1], {})]:
        us.append(Unit("P.extractall_by_path[%s]" % RC.shape_name(p, f, o), M, "extract_all",
                       dict(pattern=p, folders=f, opts=o, unroll=1 if tier == "quick" else 2, by_path=True), 1800))
    return us
