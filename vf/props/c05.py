"""C05 – any input terminates in bounded time and memory (py7zr's own loops and allocations; the C decoders are outside)."""
from __future__ import annotations

import ast
import io

import z3

from vf.common import ObResult, Unit
from vf.harness import extract as X
from vf.harness import readcases as RC
from vf.props import c06
from vf.props.c17 import _cex
from vf.pysym.engine import BudgetExceeded, Engine
from vf.pysym.harness import decide
from vf.pysym.models import Native
from vf.pysym.values import ModelRaise, SFile, SObj

AI, PZ, PR = "py7zr.archiveinfo", "py7zr.py7zr", "py7zr.properties"

ASSUMPTIONS = [
    "resource model: a loop or allocation whose trip count / size is a value declared by the input and not bounded by the "
    "number of input bytes (more than 4*(N+1) iterations/elements for N input bytes) is unbounded; loops whose every "
    "iteration consumes input end at EOF and are bounded",
    "time and memory inside the C decoders, interpreter crashes and quadratic-but-input-bounded costs are outside",
    "decoder contract for the progress obligation: a decoder may return no output and consume no input (what real decoders "
    "do on a truncated or damaged stream)",
]

SECTIONS = {
    "PackInfo": ("PackInfo", "_read"),
    "UnpackInfo": ("UnpackInfo", "_read"),
    "SubstreamsInfo": ("SubstreamsInfo", "_read"),
    "FilesInfo": ("FilesInfo", "_read"),
}


def counts(section, nbytes):
    """every input of exactly `nbytes` bytes to one section parser"""
    r = ObResult(bounds="%s._read on every byte string of %d bytes (all symbolic); budget %d iterations / elements"
                        % (section, nbytes, 4 * (nbytes + 1)))
    eng = Engine([AI], intmode="bv", unroll=64)
    eng.count_budget = 4 * (nbytes + 1)
    bs = [eng.sym_int("b%d" % i, 8) for i in range(nbytes)]
    excs = set()

    def harness(e):
        f = SFile(bs)
        obj = e.new(e.cls(AI, SECTIONS[section][0]))
        try:
            if section == "SubstreamsInfo":
                fo = e.new(e.cls(AI, "Folder"))
                fo.attrs["unpacksizes"] = [5]
                e.method(obj, "_read", f, 1, [fo])
            else:
                e.method(obj, "_read", f)
        except ModelRaise as ex:
            return dict(exc=ex.name, cls=ex.cls)
        except BudgetExceeded as ex:
            return dict(unbounded=ex.where)
        return dict(ok=True, obj=obj)

    def post(o):
        if "unbounded" in o:
            return False
        if "exc" in o:
            excs.add(o["exc"])
            # ordinary exceptions only: everything the constructor's `except Exception` can wrap
            return [o["cls"] is None or issubclass(o["cls"], Exception)]
        return None

    decide(eng, harness, post, {"b%d" % i: b for i, b in enumerate(bs)}, r, max_cex=8,
           describe=lambda o: o.get("exc") or o.get("unbounded") or "parsed")
    r.note = (r.note + " exception classes seen: %s" % sorted(excs)).strip()
    sites = {}
    for w, obs, m in getattr(r, "_bad", []):
        sites.setdefault(obs.get("unbounded"), (w, obs))
    r._bad = [(w, obs, None) for (w, obs) in sites.values()]
    _cex(r, "counts", lambda w: dict(module="vf.props.c05", func="replay_counts", kwargs=dict(
        section=section, data=bytes(int(w["b%d" % i]) for i in range(nbytes)).hex())), signature=None)
    for c, (site, _) in zip(r.cex, sites.items()):
        c["signature"] = {"obligation": "counts", "site": site}
        c["replay"]["kwargs"]["site"] = site
    return r


def _num(v):
    from vf.harness.refwriter import number_bytes

    return bytes(number_bytes(v))


# header bodies that drive each known allocation / loop site with a declared count of 2^36 (the solver's witness
# shows the site is reachable with a count just above the budget; the replay widens the same field)
RECIPES = {
    "py7zr.archiveinfo:FilesInfo._read": lambda: b"\x01\x05" + _num(2 ** 36) + b"\x00\x00",
    "py7zr.archiveinfo:PackInfo._read": lambda: b"\x01\x04\x06\x00" + _num(2 ** 36) + b"\x00\x00\x00",
    "py7zr.archiveinfo:read_boolean": lambda: (b"\x01\x04\x07\x0b\x01\x00\x01\x01\x00\x0c\x05\x00\x08\x0d" + _num(2 ** 36)
                                               + b"\x0a\x01" + b"\x00\x00\x00"),
    "py7zr.archiveinfo:SubstreamsInfo._read": lambda: (b"\x01\x04\x07\x0b\x01\x00\x01\x01\x00\x0c\x05\x00\x08\x0d" + _num(2 ** 36)
                                                       + b"\x00\x00\x00"),
}


def replay_counts(section, data, site=None):
    """open a real archive image that declares 2^36 in the field the witness found, in a subprocess under RLIMIT_AS (1 GiB)
    and a watchdog"""
    import os
    import subprocess
    import sys
    import tempfile

    from vf.harness import refwriter as W

    if site not in RECIPES:
        return False, "no replay recipe for site %s (witness %s)" % (site, data)
    img = W.seal(RECIPES[site]())
    d = tempfile.mkdtemp(prefix="vf_c05_")
    p = os.path.join(d, "a.7z")
    open(p, "wb").write(img)
    code = ("import resource,sys,time,io\nresource.setrlimit(resource.RLIMIT_AS,(1<<30,1<<30))\nimport py7zr\nt=time.time()\n"
            "try:\n    py7zr.SevenZipFile(io.BytesIO(open(sys.argv[1],'rb').read())).getnames()\n    print('OK %.2f'%(time.time()-t))\n"
            "except MemoryError:\n    print('MEMORYERROR %.2f'%(time.time()-t))\nexcept Exception as e:\n    print('EXC %s %.2f'%(type(e).__name__,time.time()-t))\n")
    try:
        out = subprocess.run([sys.executable, "-c", code, p], capture_output=True, text=True, timeout=20)
        res = out.stdout.strip() or out.stderr.strip()[-200:]
    except subprocess.TimeoutExpired:
        res = "TIMEOUT 20s"
    finally:
        import shutil

        shutil.rmtree(d, ignore_errors=True)
    slow = False
    try:
        slow = float(res.split()[-1]) > 3
    except Exception:
        pass
    bad = res.startswith("MEMORYERROR") or res.startswith("TIMEOUT") or slow or "MemoryError" in res
    return bad, "%d-byte archive declaring 2^36 at %s: %s (limit: 1 GiB address space, 20 s)" % (len(img), site, res)


# ------------------------------------------------------------------------ 2. decode-loop progress
def decode_progress():
    """one arbitrary iteration of Worker.decompress' loop: is there a step after which the state is unchanged?"""
    r = ObResult(bounds="Worker.decompress on a member of symbolic size with a decoder stub that may return nothing and "
                        "consume nothing; <= 5 loop iterations observed")
    eng = RC.mk_engine(unroll=5, unwind="assume")
    sym = RC.symbols(eng, "f")

    def harness(e):
        entries, layout = RC.build(e, "f", [1], {}, sym)
        z, fp, w = X.setup_read(e, entries, layout, progress="adversarial")
        w.progress = "adversarial"
        fac = X.StubFactory(w)
        try:
            e.method(z, "extractall", factory=fac)
        except ModelRaise as ex:
            return dict(exc=ex.name)
        except X.NoProgress as ex:
            return dict(stall=str(ex))
        return dict(ok=True)

    def post(o):
        return [not ("stall" in o)]

    decide(eng, harness, post, RC.inputs_of(sym, "f", [1]), r, max_cex=1, describe=lambda o: str(o)[:80])
    r.note = (r.note + " cut_paths=%d" % eng.cut_paths).strip()
    _cex(r, "decode_progress", lambda w_: dict(module="vf.props.c05", func="replay_progress", kwargs={}),
         signature=lambda w_: {"obligation": "decode_progress", "class": "decoder_returns_nothing_no_input_left"})
    return r


def replay_progress():
    """a Copy-coded archive whose header declares more output than the packed stream holds: the decoder runs dry"""
    import subprocess
    import sys

    code = ("import io,sys,zlib\nsys.path.insert(0,'/verif')\nimport py7zr\nfrom vf.harness import refwriter as W\n"
            "data=b'0123456789'\n"
            "entries=[dict(kind='f',name='m',size=20,crc=zlib.crc32(data),mtime=None,attributes=W.default_attributes('f'))]\n"
            "layout=dict(folders=[1],ncoders=[1],packsizes=[10],crc_at='sub',coder_ids=[b'\\x00'])\n"
            "img=W.seal(bytes(W.write_header(entries,layout,concrete=True)),data)\n"
            "from py7zr.io import NullIOFactory\n"
            "try:\n    py7zr.SevenZipFile(io.BytesIO(img)).extractall(factory=NullIOFactory())\n    print('RETURNED')\n"
            "except Exception as e:\n    print('RAISED',type(e).__name__)\n")
    try:
        out = subprocess.run([sys.executable, "-c", code], capture_output=True, text=True, timeout=15)
        return False, "extraction ended: %s" % (out.stdout.strip() or out.stderr.strip()[-300:])
    except subprocess.TimeoutExpired:
        return True, "extractall() of a 20-byte member whose packed stream holds 10 bytes did not return within 15 s"


# ----------------------------------------------------------------------------- 3. memory limit
def memory_limit():
    r = ObResult(bounds="get_memory_limit() for every RLIMIT_DATA soft limit in -1..2^62 and every available-memory figure in 0..2^62")
    import psutil
    import resource

    eng = Engine([PR], intmode="int")
    soft, avail = eng.sym_int("rlimit_soft_plus1", 62), eng.sym_int("available", 62)

    class VM(Native):
        def __init__(self):
            self.available = avail

    def harness(e):
        e.models.reg(resource.getrlimit, lambda e_, which: (e_.binop(ast.Sub(), soft, 1), 0))
        e.models.reg(psutil.virtual_memory, lambda e_: VM())
        return dict(v=e.call(PR, "get_memory_limit"))

    def post(o):
        v = eng.lift(o["v"])
        return [v >= 1, v <= 128 * 10 ** 6]

    decide(eng, harness, post, {"rlimit_soft_plus1": soft, "available": avail}, r, describe=lambda o: "limit")

    def rp(w):
        return dict(module="vf.props.c05", func="replay_memlimit", kwargs=dict(soft=int(w["rlimit_soft_plus1"]) - 1, avail=int(w["available"])))

    _cex(r, "memory_limit", rp, signature=lambda w: {"obligation": "memory_limit", "class": "limit_at_or_below_256MB"
                                                     if (int(w["rlimit_soft_plus1"]) - 1 != -1 and int(w["rlimit_soft_plus1"]) - 1 <= 256 * 10 ** 6 + 3)
                                                     or (int(w["rlimit_soft_plus1"]) - 1 == -1 and int(w["available"]) <= 256 * 10 ** 6 + 3) else "other"})
    return r


def replay_memlimit(soft, avail):
    import resource
    import types

    import psutil

    import py7zr.properties as P

    g1, g2 = resource.getrlimit, psutil.virtual_memory
    resource.getrlimit = lambda which: (soft, soft)
    psutil.virtual_memory = lambda: types.SimpleNamespace(available=avail)
    try:
        v = P.get_memory_limit()
    finally:
        resource.getrlimit, psutil.virtual_memory = g1, g2
    return not (1 <= v <= 128 * 10 ** 6), "RLIMIT_DATA soft=%d, available=%d -> get_memory_limit() = %d" % (soft, avail, v)


def units(tier):
    M = "vf.props.c05"
    us = []
    for sec in SECTIONS:
        for n in ({"FilesInfo": (2, 3)}.get(sec, (3, 5)) if tier == "quick" else {"FilesInfo": (2, 3, 4)}.get(sec, (3, 5, 6))):
            us.append(Unit("1.counts[%s,%d bytes]" % (sec, n), M, "counts", dict(section=sec, nbytes=n), 1800))
    us.append(Unit("2.decode_progress", M, "decode_progress", {}, 900))
    us.append(Unit("2.encoded_header_progress", M, "encoded_header_progress", {}, 900))
    us.append(Unit("3.memory_limit", M, "memory_limit", {}, 600))
    # any call sequence terminates – including decoding twice without reset(), which C12's side condition excludes
    for seq in (["AA", "AE", "EA", "ZA"] if tier == "quick" else ["AA", "AE", "EA", "EE", "ZA", "ZE", "AZ", "AAA", "AZA", "EAZ"]):
        for (p, f, o) in [("ff", [2], {}), ("ff", [1, 1], {})]:
            us.append(Unit("4.sequence_terminates[%s,%s]" % (RC.shape_name(p, f, o), seq), "vf.props.c12", "session",
                           dict(pattern=p, folders=f, opts=o, seq=seq, by_path=False, terminates_only=True), 900))
    # output beyond what the header legitimately declares: every decoder wrapper forwards the caller's limit (shared with C20)
    from vf.props import c20

    for w in c20.WRAPPERS:
        us.append(Unit("5.limit_forwarding[%s]" % w, "vf.props.c20", "limit_forwarding", dict(wrapper=w), 600))
    return us


def encoded_header_progress():
    """the decode loop of Header._read for an encoded header, with a decoder that may run dry"""
    from vf.harness import refwriter as W
    from vf.harness.session import LayoutFile
    from vf.pysym import tokens

    r = ObResult(bounds="Header._read on an encoded header (1 folder) whose declared size is symbolic; decoder stub may "
                        "return nothing and consume nothing; <= 5 loop iterations observed")
    eng = RC.mk_engine()
    eng.loop_limits[(AI, "Header._read")] = (5, "assume")
    usize, psize = eng.sym_int("header_unpack_size", 40), eng.sym_int("header_pack_size", 40)

    def harness(e):
        w = X.World(e, "adversarial", 3, "arbitrary")
        X.install_read_stubs(e, w)
        w.folder_total[0] = usize
        w.folder_of_coders = lambda coders: 0
        o = W.Out(e)
        o.byte(23)  # kEncodedHeader
        o.byte(6); o.num(0); o.num(1); o.byte(9); o.num(psize); o.byte(0)          # PackInfo
        o.byte(7); o.byte(11); o.num(1); o.byte(0); o.num(1); o.byte(1); o.byte(0x21)  # one folder, one coder
        o.byte(12); o.num(usize); o.byte(0)                                         # unpack size, end
        o.byte(0)
        buf = SFile(o.items)
        fp = LayoutFile(e, [0] * 32, psize, [])
        h = e.new(e.cls(AI, "Header"))
        try:
            e.method(h, "_read", fp, buf, 32, None)
        except ModelRaise as ex:
            return dict(exc=ex.name)
        except X.NoProgress as ex:
            return dict(stall=str(ex))
        return dict(ok=True)

    decide(eng, harness, lambda o: [not ("stall" in o)], {"header_unpack_size": usize, "header_pack_size": psize}, r, max_cex=1,
           describe=lambda o: str(o)[:80])
    r.note = (r.note + " cut_paths=%d" % eng.cut_paths).strip()
    _cex(r, "encoded_header_progress", lambda w_: dict(module="vf.props.c05", func="replay_encoded_progress", kwargs={}),
         signature=lambda w_: {"obligation": "encoded_header_progress"})
    return r


def replay_encoded_progress():
    """an archive whose encoded header is a Copy-coded stream shorter than its declared size"""
    import subprocess
    import sys

    code = ("import io,sys\nsys.path.insert(0,'/verif')\nimport py7zr\nfrom vf.harness import refwriter as W\n"
            "inner=bytes([1,0])\n"
            "enc=bytes([23,6,0,1,9,len(inner),0,7,11,1,0,1,1,0,12,len(inner)+8,0,0])\n"
            "img=W.seal(enc, inner)\n"
            "try:\n    py7zr.SevenZipFile(io.BytesIO(img)).getnames()\n    print('RETURNED')\nexcept Exception as e:\n    print('RAISED',type(e).__name__)\n")
    try:
        out = subprocess.run([sys.executable, "-c", code], capture_output=True, text=True, timeout=15)
        return False, "opening ended: %s" % (out.stdout.strip() or out.stderr.strip()[-300:])
    except subprocess.TimeoutExpired:
        return True, "opening an archive whose encoded header stream is shorter than declared did not return within 15 s"
