"""C20 – streaming in bounded memory: decided for py7zr's own accounting (how much it asks for, reads and holds per
step); resident memory, allocation inside the C codecs and the 700 MiB figure are NOT decided (measurement, outside)."""
from __future__ import annotations

import ast

import z3

from vf.common import ObResult, Unit
from vf.harness import extract as X
from vf.harness import readcases as RC
from vf.props import c01, c05, c06
from vf.props.c17 import _cex
from vf.pysym.engine import Engine
from vf.pysym.harness import decide
from vf.pysym.models import Native
from vf.pysym.values import ModelRaise, Rope, SBytes, SObj

CP = "py7zr.compressor"

ASSUMPTIONS = c06.ASSUMPTIONS + [
    "peak resident memory, allocation inside the C codecs and GB-sized members are not decided: no solver encoding of "
    "zstd/brotli/deflate expansion exists here; for wrappers that drop max_length the per-step bound is whatever one "
    "block_size input expands to (reported as an observation)",
]


def chunk_requests(pattern, folders, opts, unroll=2):
    r = ObResult(bounds="layout %s; extractall(factory); every decoder request compared with min(remaining, memory limit); "
                        "limit symbolic >= 1" % RC.shape_name(pattern, folders, opts))
    eng = RC.mk_engine(unroll=unroll)
    sym = RC.symbols(eng, pattern)
    reqs = []

    class Spy(X.StubDecompressor):
        def decompress(self, e, fp, max_length=-1):
            reqs.append((self.k, self.produced, max_length))
            return super().decompress(e, fp, max_length)

    def harness(e):
        del reqs[:]
        entries, layout = RC.build(e, pattern, folders, opts, sym)
        z, fp, w = X.setup_read(e, entries, layout, consume="all-at-once")
        base = e.class_models[("py7zr.compressor", "SevenZipDecompressor")]

        def mk(e_, coders, packsize, unpacksizes, crc, password=None, blocksize=None):
            return Spy(e_, w, w.folder_of_coders(coders), packsize, crc, w.fresh)

        e.class_models[("py7zr.compressor", "SevenZipDecompressor")] = mk
        try:
            e.method(z, "extractall", factory=X.StubFactory(w))
        except ModelRaise as ex:
            return dict(exc=ex.name)
        return dict(reqs=list(reqs), world=w)

    def post(o):
        if "exc" in o:
            return False
        lim = z3.Int("memlimit")
        c = []
        w = o["world"]
        for (k, produced, m) in o["reqs"]:
            c.append(eng.compare(ast.GtE(), m, 0))
            c.append(eng.compare(ast.LtE(), m, lim))
            c.append(eng.compare(ast.LtE(), eng.binop(ast.Add(), produced, m), w.folder_total[k]))  # never beyond the folder's output
        return c or [True]

    decide(eng, harness, post, RC.inputs_of(sym, pattern, folders), r, describe=lambda o: o.get("exc") or "%d requests" % len(o["reqs"]))
    r.note = (r.note + " cut_paths=%d" % eng.cut_paths).strip()
    _cex(r, "chunk_requests", lambda w_: dict(module="vf.props.c20", func="replay_chunks", kwargs={}), signature=lambda w_: {"obligation": "chunk_requests"})
    return r


def replay_chunks():
    """real extraction with a spy on SevenZipDecompressor.decompress: every request <= get_memory_limit()"""
    import io

    import py7zr
    import py7zr.compressor as C
    from py7zr.io import NullIOFactory
    from py7zr.properties import get_memory_limit

    b = io.BytesIO()
    with py7zr.SevenZipFile(b, "w", filters=[{"id": py7zr.FILTER_COPY}]) as z:
        z.writestr(b"x" * 3000000, "big")
        z.writestr(b"y" * 10, "small")
    seen = []
    orig = C.SevenZipDecompressor.decompress

    def spy(self, fp, max_length=-1):
        seen.append(max_length)
        return orig(self, fp, max_length)

    C.SevenZipDecompressor.decompress = spy
    try:
        py7zr.SevenZipFile(io.BytesIO(b.getvalue())).extractall(factory=NullIOFactory())
    finally:
        C.SevenZipDecompressor.decompress = orig
    lim = get_memory_limit()
    bad = [m for m in seen if m < 0 or m > lim]
    return bool(bad), "requests %s, limit %d" % (seen[:6], lim)


# ------------------------------------------------------------------- limit forwarding per wrapper
WRAPPERS = {
    "LZMA1Decompressor": ("_decompressor", "decompress", True),
    "PpmdDecompressor": ("decoder", "decode", True),
    "DeflateDecompressor": ("_decompressor", "decompress", False),
    "Deflate64Decompressor": ("_decompressor", "inflate", False),
    "CopyDecompressor": (None, None, False),
    "BrotliDecompressor": ("_decompressor", "process", False),
    "ZstdDecompressor": ("decompressor", "decompress", False),
    "BCJDecoder": ("decoder", "decode", False),
    "BcjArmDecoder": ("decoder", "decode", False),
    "BcjArmtDecoder": ("decoder", "decode", False),
    "BcjPpcDecoder": ("decoder", "decode", False),
    "BcjSparcDecoder": ("decoder", "decode", False),
}


def limit_forwarding(wrapper):
    attr, meth, forwards = WRAPPERS[wrapper]
    r = ObResult(bounds="%s.decompress(data, max_length) with data of symbolic length >= 1 and symbolic max_length; the "
                        "underlying C object is a recording stub" % wrapper)
    eng = Engine([CP, "py7zr.io"], intmode="int", bytes_domain="rope")
    n, m = eng.sym_int("len", 40), eng.sym_int("max_length", 40)
    calls = []

    class CObj(Native):
        needs_input = False

        def _rec(self, e, *a, **k):
            calls.append((a, k))
            return Rope([("OUT", 0, e.sym_int("out", 40))])

        decompress = decode = inflate = process = _rec

        def flush(self, e):
            return Rope()

    def harness(e):
        del calls[:]
        e.assume(e.compare(ast.GtE(), n, 1))
        o = SObj(e.cls(CP, wrapper))
        o.attrs.update(flushed=False, _enabled=True, _prefix_checked=True)
        if attr:
            o.attrs[attr] = CObj()
        out = e.method(o, "decompress", Rope([("IN", 0, n)]), m)
        return dict(calls=list(calls), out=out)

    def post(o):
        if attr is None:
            return [eng.compare(ast.Eq(), o["out"].length(), n)]      # Copy: output = input, bounded by the block read
        c = [len(o["calls"]) == 1]
        if len(o["calls"]) != 1:
            return c
        a, k = o["calls"][0]
        passed = list(a[1:]) + list(k.values())
        if forwards:
            c.append(len(passed) == 1 and eng.compare(ast.Eq(), passed[0], m) is not False)
            if len(passed) == 1:
                c.append(eng.compare(ast.Eq(), passed[0], m))           # the caller's limit reaches the decoder
        return c

    decide(eng, harness, post, {"len": n, "max_length": m}, r,
           describe=lambda o: "underlying call args: %d, limit %s" % (len(o["calls"][0][0]) if o["calls"] else 0, "forwarded" if forwards else "not forwarded (by design of the wrapped API)"))
    r.note = ("limit forwarded" if forwards else "limit NOT forwarded: per-step output is whatever one input block expands to (observation)")
    _cex(r, "limit_forwarding", lambda w_: dict(module="vf.props.c20", func="replay_forwarding", kwargs=dict(wrapper=wrapper)),
         signature=lambda w_: {"obligation": "limit_forwarding", "wrapper": wrapper})
    return r


def replay_forwarding(wrapper):
    """real LZMA1 / PPMd wrappers on a highly compressible stream: output per call must respect max_length"""
    import io
    import lzma

    import py7zr.compressor as C

    data = bytes(1000000)
    if wrapper == "LZMA1Decompressor":
        filt = [{"id": lzma.FILTER_LZMA1, "preset": 1}]
        comp = lzma.LZMACompressor(format=lzma.FORMAT_RAW, filters=filt)
        packed = comp.compress(data) + comp.flush()
        d = C.LZMA1Decompressor(filt, len(data))
    elif wrapper == "PpmdDecompressor":
        props = C.PpmdCompressor.encode_filter_properties({"order": 6, "mem": 16})
        enc = C.PpmdCompressor(props)
        packed = enc.compress(data) + enc.flush()
        d = C.PpmdDecompressor(props)
    else:
        return False, "no replay for %s" % wrapper
    out = d.decompress(packed, 1000)
    return len(out) > 1000, "%s returned %d bytes for max_length 1000" % (wrapper, len(out))


def units(tier):
    M = "vf.props.c20"
    us = [Unit("1." + u.name, u.module, u.func, u.kwargs, u.timeout) for u in c05.units("quick") if "memory_limit" in u.name]
    for (p, f, o) in [("ff", [2], {}), ("ff", [1, 1], {})] + ([("fff", [2, 1], {})] if tier == "thorough" else []):
        us.append(Unit("2.chunk_requests[%s]" % RC.shape_name(p, f, o), M, "chunk_requests", dict(pattern=p, folders=f, opts=o, unroll=2 if tier == "quick" else 3), 1800))
    us += [Unit("2.block_reads." + u.name, u.module, u.func, u.kwargs, u.timeout) for u in c01.units(tier)
           if "compressor_loop" in u.name or "decompressor[" in u.name]
    for w in WRAPPERS:
        us.append(Unit("3.limit_forwarding[%s]" % w, M, "limit_forwarding", dict(wrapper=w), 600))
    return us
