"""C11 – encryption plumbing: nothing bypasses the cipher, the header is routed through it when asked, IV = RNG output,
no decoder is built without a password (cryptographic strength, AES/SHA themselves and statistical IV distinctness are outside)."""
from __future__ import annotations

import ast

import z3

from vf.common import ObResult, Unit
from vf.harness import session as S
from vf.props import c01, c04, c08
from vf.props.c17 import _cex
from vf.pysym.engine import Engine
from vf.pysym.harness import decide
from vf.pysym.models import Native
from vf.pysym.values import ModelRaise, SBytes, SFile, SObj

CP, PZ, AI = "py7zr.compressor", "py7zr.py7zr", "py7zr.archiveinfo"
AES_ID = 0x06F10701

ASSUMPTIONS = c01.ASSUMPTIONS + [
    "taint view of obligation 1: plaintext segments are 'IN', only the cipher stub produces 'CT'; the output of "
    "AESCompressor.compress/flush consists of CT segments only",
    "get_random_bytes, AES.new, calculate_key and the codec constructors are stubs that record their arguments",
    "a wrong password is an adversarial decoder (garbage output): covered by the C04 obligations re-run here",
]


# ---------------------------------------------------------------- 3. header modes -> what reaches the file
def header_modes(calls, ctor_flag, password="pw"):
    """calls: string over {'E','e','C','c'}: set_encrypted_header(True/False), set_encoded_header_mode(True/False)"""
    r = ObResult(bounds="password %r, constructor header_encryption=%s, then setter calls %r, one member, close; sizes symbolic" % (password, ctor_flag, calls))
    eng, st = c08.mk_engine()
    seen = {}
    base_prepare = eng.overrides[(AI, "Folder.prepare_coderinfo")]

    def prepare(e, folder, filters):
        seen.setdefault("filters", []).append(filters)
        return base_prepare(e, folder, filters)

    eng.overrides[(AI, "Folder.prepare_coderinfo")] = prepare
    size = eng.sym_int("size", 40)
    secret = "secret-name.txt"

    def harness(e):
        seen.clear()
        st.pop("compressors", None)
        # the flag goes through the real constructor (header_mode 'encrypted' = header_encryption=True)
        z, fp = S.new_archive(e, header_mode=("encrypted" if ctor_flag else "encoded"), password=password)
        for c in calls:
            if c in "Ee":
                e.method(z, "set_encrypted_header", c == "E")
            else:
                e.method(z, "set_encoded_header_mode", c == "C")
        enc, encr = z.attrs["encoded_header_mode"], z.attrs["header_encryption"]
        e.method(z, "_writef", S.StubSource(size, "m0"), secret)
        e.method(z, "close")
        plain = []
        for op in fp.ops:
            if op[0] == "write" and isinstance(op[2], SBytes):
                plain.extend(op[2].items)
        return dict(enc=enc, encr=encr, plain=plain, filters=list(seen.get("filters", [])))

    def post(o):
        # expected final mode from the documented meaning of the setters
        encoded, encrypted = True, ctor_flag
        for c in calls:
            if c == "E":
                encoded, encrypted = True, True
            elif c == "e":
                encrypted = False
            elif c == "C":
                encoded = True
            elif c == "c":
                encoded, encrypted = False, False
        c_ = [o["enc"] == encoded, o["encr"] == encrypted]
        name_units = list(secret.encode("utf-16LE"))
        items = [x for x in o["plain"]]
        leaked = any(items[i:i + len(name_units)] == name_units for i in range(len(items) - len(name_units) + 1))
        hdr_filters = o["filters"][-1] if len(o["filters"]) > 1 else None
        if encrypted:
            c_.append(not leaked)                                   # the member name never reaches the file in clear
            c_.append(hdr_filters is not None and hdr_filters[-1]["id"] == AES_ID)  # header chain ends in 7zAES
        elif encoded:
            c_.append(not leaked)                                   # (compressed, not encrypted)
            c_.append(hdr_filters is not None and all(f["id"] != AES_ID for f in hdr_filters))
        else:
            c_.append(leaked)                                       # raw header: names are in the file (by design)
        # payload chain of an archive created with a password and default filters ends in 7zAES
        c_.append(o["filters"][0][-1]["id"] == AES_ID)
        return c_

    decide(eng, harness, post, {"size": size}, r, describe=lambda o: "encoded=%s encrypted=%s" % (o["enc"], o["encr"]))
    _cex(r, "header_modes", lambda w: dict(module="vf.props.c11", func="replay_header_modes", kwargs=dict(calls=calls, ctor_flag=ctor_flag, password=password)),
         signature=lambda w: {"obligation": "header_modes"})
    return r


def replay_header_modes(calls, ctor_flag, password="pw"):
    import io

    import py7zr

    buf = io.BytesIO()
    z = py7zr.SevenZipFile(buf, "w", password=password, header_encryption=ctor_flag)
    for c in calls:
        if c in "Ee":
            z.set_encrypted_header(c == "E")
        else:
            z.set_encoded_header_mode(c == "C")
    z.writestr(b"0123456789" * 10, "secret-name.txt")
    z.close()
    raw = buf.getvalue()
    encoded, encrypted = True, ctor_flag
    for c in calls:
        if c == "E":
            encoded, encrypted = True, True
        elif c == "e":
            encrypted = False
        elif c == "C":
            encoded = True
        elif c == "c":
            encoded, encrypted = False, False
    leaked = "secret-name.txt".encode("utf-16LE") in raw
    try:
        # with a password and default filters the payload must be encrypted: no delivery without the password
        from py7zr.io import BytesIOFactory

        py7zr.SevenZipFile(io.BytesIO(raw)).extractall(factory=BytesIOFactory(10 ** 6))
        return True, "archive written with password %r is readable without any password" % (password,)
    except Exception:  # noqa
        pass
    if encrypted:
        try:
            py7zr.SevenZipFile(io.BytesIO(raw)).getnames()
            opened = True
        except py7zr.exceptions.PasswordRequired:
            opened = False
        except Exception:
            opened = False
        return (leaked or opened), "header encryption expected: name in clear=%s, opens without password=%s" % (leaked, opened)
    return (leaked != (not encoded)), "encoded=%s encrypted=%s name in clear=%s" % (encoded, encrypted, leaked)


# ---------------------------------------------------------------- 4. IV / RNG
def iv_plumbing():
    r = ObResult(bounds="AESCompressor.__init__ + encode_filter_properties with the RNG returning 16 symbolic bytes")
    eng = Engine([CP], intmode="bv")
    ivb = [eng.sym_int("iv%d" % i, 8) for i in range(16)]
    rec = {}

    class Cipher(Native):
        pass

    def harness(e):
        rec.clear()
        rec["rng_calls"] = 0

        def rng(e_, n):
            rec["rng_calls"] += 1
            rec["rng_n"] = n
            return SBytes(list(ivb))

        def aes_new(e_, key, mode, iv):
            rec["aes_iv"], rec["aes_mode"], rec["aes_key"] = iv, mode, key
            return Cipher()

        e.overrides[(CP, "get_random_bytes")] = None
        import Cryptodome.Cipher.AES as AES
        import Cryptodome.Random as CR

        e.models.reg(CR.get_random_bytes, rng)
        e.models.reg(AES.new, aes_new)
        e.overrides.pop((CP, "get_random_bytes"))
        e.overrides[("py7zr.helpers", "_calculate_key3")] = lambda e_, pw, cycles, salt, digest: SBytes([7] * 32)
        e.overrides[("py7zr.helpers", "_calculate_key2")] = lambda e_, pw, cycles, salt, digest: SBytes([7] * 32)
        c = e.new(e.cls(CP, "AESCompressor"), "pw")
        props = e.method(c, "encode_filter_properties")
        first = dict(rec)
        e.new(e.cls(CP, "AESCompressor"), "pw")   # a second compressor (another folder / header / archive) asks the RNG again
        return dict(props=props, rec=first, iv=c.attrs["iv"], cycles=c.attrs["cycles"], calls_after_two=rec["rng_calls"])

    def post(o):
        c = [o["rec"]["rng_calls"] == 1, o["rec"].get("rng_n") == 16, o["calls_after_two"] == 2]
        iv_used = o["rec"].get("aes_iv")
        c.append(iv_used is not None and len(iv_used) == 16)
        if iv_used is None or len(iv_used) != 16:
            return c
        for a, b in zip(iv_used.items, ivb):
            c.append(eng.compare(ast.Eq(), a, b))                 # the IV handed to AES is the RNG output
        props = o["props"].items
        c.append(len(props) == 2 + 16)
        if len(props) == 18:
            c.append(props[0] == o["cycles"] + (1 << 6))          # cycles, IV-present flag, no salt
            c.append(props[1] == 15)                              # ivsize - 1
            for a, b in zip(props[2:], ivb):
                c.append(eng.compare(ast.Eq(), a, b))             # the IV stored in the coder properties is the same
        import Cryptodome.Cipher.AES as AES

        c.append(o["rec"].get("aes_mode") == AES.MODE_CBC)
        return c

    decide(eng, harness, post, {"iv%d" % i: b for i, b in enumerate(ivb)}, r, describe=lambda o: "rng calls=%d" % o["rec"]["rng_calls"])
    _cex(r, "iv_plumbing", lambda w: dict(module="vf.props.c11", func="replay_iv", kwargs={}), signature=lambda w: {"obligation": "iv_plumbing"})
    return r


def replay_iv():
    from py7zr.compressor import AESCompressor, AESDecompressor

    a, b = AESCompressor("pw"), AESCompressor("pw")
    pa, pb = a.encode_filter_properties(), b.encode_filter_properties()
    same_iv = pa[2:] == pb[2:]
    data = b"0123456789abcdef" * 4
    ca = a.compress(data) + a.flush()
    ok = AESDecompressor(pa, "pw").decompress(ca)[:len(data)] == data
    return (same_iv or not ok), "two compressors share an IV: %s; stored IV decrypts: %s" % (same_iv, ok)


# ---------------------------------------------------------------- 5. no decoder without password
def password_required(ncoders, aes_at):
    r = ObResult(bounds="SevenZipDecompressor.__init__ on %d coders with the 7zAES coder at index %d, password None" % (ncoders, aes_at))
    eng = Engine([CP], intmode="bv")
    built = []
    ids = [b"\x21", b"\x03\x03\x01\x03", b"\x04\x02\x02", b"\x00"]

    def harness(e):
        del built[:]
        for name in ("LZMA1Decompressor", "AESDecompressor", "CopyDecompressor", "BCJDecoder", "DeflateDecompressor"):
            e.class_models[(CP, name)] = (lambda nm: (lambda e_, *a, **k: built.append(nm)))(name)
        import bz2
        import lzma

        e.models.reg(lzma.LZMADecompressor, lambda e_, *a, **k: built.append("lzma"))
        e.models.reg(bz2.BZ2Decompressor, lambda e_, *a, **k: built.append("bz2"))
        coders = []
        for i in range(ncoders):
            mid = b"\x06\xf1\x07\x01" if i == aes_at else ids[i % len(ids)]
            coders.append({"method": e.mkbytes(mid), "properties": e.mkbytes(b"\x53\x0f" + bytes(16)) if i == aes_at else None,
                           "numinstreams": 1, "numoutstreams": 1})
        try:
            e.new(e.cls(CP, "SevenZipDecompressor"), coders, 100, [100] * ncoders, None, None)
        except ModelRaise as ex:
            return dict(exc=ex.name, built=list(built))
        return dict(built=list(built))

    decide(eng, harness, lambda o: [o.get("exc") == "PasswordRequired", o["built"] == []], {}, r, describe=lambda o: str(o))
    _cex(r, "password_required", lambda w: dict(module="vf.props.c11", func="replay_password_required", kwargs=dict(ncoders=ncoders, aes_at=aes_at)),
         signature=lambda w: {"obligation": "password_required"})
    return r


def replay_password_required(ncoders, aes_at):
    from py7zr.compressor import SevenZipDecompressor
    from py7zr.exceptions import PasswordRequired

    ids = [b"\x21", b"\x03\x03\x01\x03", b"\x04\x02\x02", b"\x00"]
    coders = [{"method": (b"\x06\xf1\x07\x01" if i == aes_at else ids[i % 4]), "properties": (b"\x53\x0f" + bytes(16)) if i == aes_at else (b"\x18" if ids[i % 4] == b"\x21" else None),
               "numinstreams": 1, "numoutstreams": 1} for i in range(ncoders)]
    try:
        SevenZipDecompressor(coders, 100, [100] * ncoders, None, None)
    except PasswordRequired:
        return False, "PasswordRequired"
    except Exception as e:  # noqa
        return True, "raised %r instead of PasswordRequired" % (e,)
    return True, "a decompressor was built without a password"


def units(tier):
    M = "vf.props.c11"
    us = [Unit("1.taint." + u.name, u.module, u.func, u.kwargs, u.timeout) for u in c01.units("quick") if "aes_" in u.name]
    seqs = ["", "E", "e", "c", "C", "Ee", "cE", "Ec", "eC"] if tier == "quick" else [
        "", "E", "e", "c", "C", "Ee", "cE", "Ec", "eC", "EeE", "cCE", "EcC", "ceE", "CEe"]
    for flag in (False, True):
        for sq in seqs:
            us.append(Unit("3.header_modes[ctor=%s,%s]" % (flag, sq or "-"), M, "header_modes", dict(calls=sq, ctor_flag=flag), 900))
    for sq in ("", "E"):
        us.append(Unit("3.header_modes[empty password,%s]" % (sq or "-"), M, "header_modes", dict(calls=sq, ctor_flag=False, password=""), 900))
    us.append(Unit("4.iv_plumbing", M, "iv_plumbing", {}, 600))
    for n in (1, 2, 3, 4):
        for at in range(n):
            us.append(Unit("5.password_required[%d coders, aes@%d]" % (n, at), M, "password_required", dict(ncoders=n, aes_at=at), 600))
    us += [Unit("6.wrong_key." + u.name, u.module, u.func, u.kwargs, u.timeout) for u in c04.units("quick") if "damaged[ff/2,extractall" in u.name or "damaged[ff/1+1,testzip" in u.name]
    return us
