"""C03 – extraction never writes outside the destination directory (lexical kernels + link-target gate; the physical
filesystem step is a separate obligation with a model of POSIX path resolution)."""
from __future__ import annotations

import ast

import z3

from vf.common import ObResult, Unit
from vf.props.c17 import _cex
from vf.pysym import pathdom as P
from vf.pysym.engine import Engine
from vf.pysym.harness import decide
from vf.pysym.values import ModelRaise

HP = "py7zr.helpers"

ASSUMPTIONS = [
    "path domain and pathlib model as in C16 (validated against real PurePosixPath each run)",
    "obligations 1-2 are lexical: they decide that the path handed to mkdir/open/symlink_to lies lexically inside the "
    "destination and that an accepted link target resolves lexically inside it; following links that earlier entries "
    "created (physical resolution) is obligation 3",
]


def lexically_inside(eng, full, dest):
    """the location `full` resolves to (lexical '..' resolution; no links involved at this level) is the destination
    or lies beneath it"""
    stack = []
    for p_ in full.parts:
        if eng.branch(P.ceq(eng, p_, "..")):
            if len(stack) > 1 or (stack and not (not hasattr(stack[0].code, "sort") and stack[0].code >= P.ROOT)):
                stack.pop()
            elif not stack:
                return False  # relative path climbing above its start: location unknown
        else:
            stack.append(p_)
    if len(stack) < len(dest.parts):
        return False
    for a, b in zip(stack, dest.parts):
        if not eng.branch(P.ceq(eng, a, b)):
            return False
    return True


def sanitized_output(n, dest_kind):
    """dest_kind: 'abs' (absolute destination /jail/a), 'none' (path=None: cwd = /jail/a)"""
    r = ObResult(bounds="member names of exactly %d components over the 7-letter alphabet; destination %s" % (
        n, "absolute /jail/a" if dest_kind == "abs" else "None (extraction into the current directory /jail/a)"))
    eng = Engine([HP], intmode="int", unroll=20)
    dest = P.SPath(["/", "jail", "a"])
    P.install(eng, dest)
    cs = [eng.sym_int("c%d" % i, 3) for i in range(n)]

    def harness(e):
        for c in cs:
            e.assume(e.compare(ast.Lt(), c, P.ALPHA))
        comps = [P.C(c) for c in cs]
        try:
            out = e.call(HP, "get_sanitized_output_path", P.SName(comps), None if dest_kind == "none" else dest)
        except ModelRaise as ex:
            return dict(exc=ex.name)
        out = P.to_path(e, out)
        # where the file is then created: a relative result is taken relative to the current directory
        full = out if out.has_root() else dest.joinpath(e, out)
        return dict(ok=lexically_inside(e, full, dest), full=full)

    def post(o):
        if "exc" in o:
            return [o["exc"] == "Bad7zFile"]
        return [o["ok"]]

    decide(eng, harness, post, {"c%d" % i: c for i, c in enumerate(cs)}, r, describe=lambda o: o.get("exc") or "inside=%s" % o["ok"])

    def name_of(w):
        return "/".join(P.NAMES[int(w["c%d" % i])] for i in range(n))

    _cex(r, "sanitized_output", lambda w: dict(module="vf.props.c03", func="replay_sanitized", kwargs=dict(name=name_of(w), dest_kind=dest_kind)),
         signature=lambda w: {"obligation": "sanitized_output", "dest": dest_kind,
                              "class": "absolute_after_dot_slash" if name_of(w).lstrip("/").startswith(".//") else "other"})
    for c in r.cex:
        c["witness"] = {"name": name_of(c["witness"])}
    return r


def replay_sanitized(name, dest_kind):
    """extract an archive holding one member of that name into a scratch jail and look for anything created outside"""
    import io
    import os
    import tempfile

    import py7zr
    from vf.harness import refwriter as W
    import zlib

    base = tempfile.mkdtemp(prefix="vf_c03_")
    jail = os.path.join(base, "jail", "a")
    os.makedirs(jail)
    # symbolic component 'a'.. are plain names; an absolute name inside the witness is redirected into the scratch area
    real_name = name
    stripped = name.lstrip("/")
    if stripped.startswith(".//"):
        # './/<absolute path>': the absolute part is redirected into the scratch area (same class of name)
        rest = stripped[3:].strip("./") or "escaped.txt"
        real_name = name[:len(name) - len(stripped)] + "./" + base + "/outside_abs/" + rest
    data = b"payload"
    entries = [dict(kind="f", name=real_name, size=len(data), crc=zlib.crc32(data), mtime=None, attributes=W.default_attributes("f"))]
    layout = dict(folders=[1], ncoders=[1], packsizes=[len(data)], crc_at="sub", coder_ids=[b"\x00"])
    img = W.seal(bytes(W.write_header(entries, layout, concrete=True)), data)
    before = _snapshot(base, jail)
    cwd = os.getcwd()
    try:
        os.chdir(jail)
        try:
            z = py7zr.SevenZipFile(io.BytesIO(img))
            if dest_kind == "none":
                z.extractall()
            else:
                z.extractall(path=jail)
        except Exception as e:  # noqa
            outcome = "raised %r" % (e,)
        else:
            outcome = "completed"
    finally:
        os.chdir(cwd)
    after = _snapshot(base, jail)
    import shutil

    shutil.rmtree(base, ignore_errors=True)
    new = sorted(after - before)
    return bool(new), "member %r, destination %s: %s; created outside the destination: %s" % (real_name, dest_kind, outcome, new)


def _snapshot(base, jail):
    import os

    out = set()
    for root, dirs, files in os.walk(base, followlinks=False):
        for n_ in dirs + files:
            p = os.path.join(root, n_)
            if not (p + "/").startswith(jail + "/") and not jail.startswith(p):
                out.add(p)
    return out


def link_gate(n):
    """is_path_valid(link_dir.joinpath(target), dest) accepted => the target resolves lexically inside the destination"""
    r = ObResult(bounds="link at /jail/a/b/<link>, targets of exactly %d components over the alphabet (absolute ones included)" % n)
    eng = Engine([HP], intmode="int", unroll=20)
    dest = P.SPath(["/", "jail", "a"])
    P.install(eng, dest)
    cs = [eng.sym_int("t%d" % i, 3) for i in range(n)]
    linkdir = P.SPath(["/", "jail", "a", "b"])

    def harness(e):
        for c in cs:
            e.assume(e.compare(ast.Lt(), c, P.ALPHA))
        tgt = P.SName([P.C(c) for c in cs])
        try:
            ok = e.call(HP, "is_path_valid", linkdir.joinpath(e, tgt), dest)
        except ModelRaise as ex:
            return dict(exc=ex.name)
        if not ok:
            return dict(rejected=True)
        full = linkdir.joinpath(e, tgt)
        # lexical resolution of the link target from the link's directory
        stack = []
        for p_ in full.parts:
            if e.branch(P.ceq(e, p_, "..")):
                if len(stack) > 1:
                    stack.pop()
            else:
                stack.append(p_)
        inside = len(stack) >= len(dest.parts) and all(e.branch(P.ceq(e, a, b)) for a, b in zip(stack, dest.parts))
        return dict(inside=inside)

    def post(o):
        if "exc" in o or "rejected" in o:
            return None
        return [o["inside"]]

    decide(eng, harness, post, {"t%d" % i: c for i, c in enumerate(cs)}, r,
           describe=lambda o: "rejected" if "rejected" in o else str(o))
    _cex(r, "link_gate", lambda w: dict(module="vf.props.c03", func="replay_link_gate", kwargs=dict(
        target="/".join(P.NAMES[int(w["t%d" % i])] for i in range(n)))), signature=lambda w: {"obligation": "link_gate"})
    return r


def replay_link_gate(target):
    import os
    import pathlib

    from py7zr.helpers import is_path_valid

    dest = pathlib.Path("/jail/a")
    ok = is_path_valid(pathlib.Path("/jail/a/b").joinpath(target), dest)
    resolved = os.path.normpath(os.path.join("/jail/a/b", target))
    inside = (resolved + "/").startswith("/jail/a/")
    return (ok and not inside), "target %r accepted=%s resolves to %s" % (target, ok, resolved)


def units(tier):
    M = "vf.props.c03"
    us = []
    for n in range(1, (5 if tier == "quick" else 6) + 1):
        for dk in ("abs", "none"):
            us.append(Unit("1.sanitized_output[n=%d,dest=%s]" % (n, dk), M, "sanitized_output", dict(n=n, dest_kind=dk), 1800))
    for n in range(1, (4 if tier == "quick" else 5) + 1):
        us.append(Unit("2.link_gate[n=%d]" % n, M, "link_gate", dict(n=n), 1800))
    return us
