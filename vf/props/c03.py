"""C03 – extraction never writes outside the destination directory (lexical kernels + link-target gate; the physical
filesystem step is a separate obligation with a model of POSIX path resolution)."""
from __future__ import annotations

import ast

import z3

from vf.common import ObResult, Unit
from vf.props.c17 import _cex
from vf.pysym import pathdom as P
from vf.pysym.engine import Engine
from vf.pysym.harness import decide
from vf.pysym.values import ModelRaise

HP = "py7zr.helpers"

ASSUMPTIONS = [
    "path domain and pathlib model as in C16 (validated against real PurePosixPath each run)",
    "obligations 1-2 are lexical: they decide that the path handed to mkdir/open/symlink_to lies lexically inside the "
    "destination and that an accepted link target resolves lexically inside it; following links that earlier entries "
    "created (physical resolution) is obligation 3",
]


def lexically_inside(eng, full, dest):
    """the location `full` resolves to (lexical '..' resolution; no links involved at this level) is the destination
    or lies beneath it"""
    stack = []
    for p_ in full.parts:
        if eng.branch(P.ceq(eng, p_, "..")):
            if len(stack) > 1 or (stack and not (not hasattr(stack[0].code, "sort") and stack[0].code >= P.ROOT)):
                stack.pop()
            elif not stack:
                return False  # relative path climbing above its start: location unknown
        else:
            stack.append(p_)
    if len(stack) < len(dest.parts):
        return False
    for a, b in zip(stack, dest.parts):
        if not eng.branch(P.ceq(eng, a, b)):
            return False
    return True


def sanitized_output(n, dest_kind):
    """dest_kind: 'abs' (absolute destination /jail/a), 'none' (path=None: cwd = /jail/a)"""
    r = ObResult(bounds="member names of exactly %d components over the 7-letter alphabet; destination %s" % (
        n, "absolute /jail/a" if dest_kind == "abs" else "None (extraction into the current directory /jail/a)"))
    eng = Engine([HP], intmode="int", unroll=20)
    dest = P.SPath(["/", "jail", "a"])
    P.install(eng, dest)
    cs = [eng.sym_int("c%d" % i, 3) for i in range(n)]

    def harness(e):
        for c in cs:
            e.assume(e.compare(ast.Lt(), c, P.ALPHA))
        comps = [P.C(c) for c in cs]
        try:
            out = e.call(HP, "get_sanitized_output_path", P.SName(comps), None if dest_kind == "none" else dest)
        except ModelRaise as ex:
            return dict(exc=ex.name)
        out = P.to_path(e, out)
        # where the file is then created: a relative result is taken relative to the current directory
        full = out if out.has_root() else dest.joinpath(e, out)
        return dict(ok=lexically_inside(e, full, dest), full=full)

    def post(o):
        if "exc" in o:
            return [o["exc"] == "Bad7zFile"]
        return [o["ok"]]

    decide(eng, harness, post, {"c%d" % i: c for i, c in enumerate(cs)}, r, describe=lambda o: o.get("exc") or "inside=%s" % o["ok"])

    def name_of(w):
        return "/".join(P.NAMES[int(w["c%d" % i])] for i in range(n))

    _cex(r, "sanitized_output", lambda w: dict(module="vf.props.c03", func="replay_sanitized", kwargs=dict(name=name_of(w), dest_kind=dest_kind)),
         signature=lambda w: {"obligation": "sanitized_output", "dest": dest_kind,
                              "class": "absolute_after_dot_slash" if name_of(w).lstrip("/").startswith(".//") else "other"})
    for c in r.cex:
        c["witness"] = {"name": name_of(c["witness"])}
    return r


def replay_sanitized(name, dest_kind):
    """extract an archive holding one member of that name into a scratch jail and look for anything created outside"""
    import io
    import os
    import tempfile

    import py7zr
    from vf.harness import refwriter as W
    import zlib

    base = tempfile.mkdtemp(prefix="vf_c03_")
    jail = os.path.join(base, "jail", "a")
    os.makedirs(jail)
    # symbolic component 'a'.. are plain names; an absolute name inside the witness is redirected into the scratch area
    real_name = name
    stripped = name.lstrip("/")
    if stripped.startswith(".//"):
        # './/<absolute path>': the absolute part is redirected into the scratch area (same class of name)
        rest = stripped[3:].strip("./") or "escaped.txt"
        real_name = name[:len(name) - len(stripped)] + "./" + base + "/outside_abs/" + rest
    data = b"payload"
    entries = [dict(kind="f", name=real_name, size=len(data), crc=zlib.crc32(data), mtime=None, attributes=W.default_attributes("f"))]
    layout = dict(folders=[1], ncoders=[1], packsizes=[len(data)], crc_at="sub", coder_ids=[b"\x00"])
    img = W.seal(bytes(W.write_header(entries, layout, concrete=True)), data)
    before = _snapshot(base, jail)
    cwd = os.getcwd()
    try:
        os.chdir(jail)
        try:
            z = py7zr.SevenZipFile(io.BytesIO(img))
            if dest_kind == "none":
                z.extractall()
            else:
                z.extractall(path=jail)
        except Exception as e:  # noqa
            outcome = "raised %r" % (e,)
        else:
            outcome = "completed"
    finally:
        os.chdir(cwd)
    after = _snapshot(base, jail)
    import shutil

    shutil.rmtree(base, ignore_errors=True)
    new = sorted(after - before)
    return bool(new), "member %r, destination %s: %s; created outside the destination: %s" % (real_name, dest_kind, outcome, new)


def _snapshot(base, jail):
    """everything outside the destination with its kind, permission bits and mtime - the scratch root itself included
    (a chmod/utime that follows a link lands on a directory ABOVE the destination)"""
    import os

    def meta(p):
        st = os.lstat(p)
        return (p, oct(st.st_mode), st.st_mtime_ns)

    out = {meta(base)}
    for root, dirs, files in os.walk(base, followlinks=False):
        for n_ in dirs + files:
            p = os.path.join(root, n_)
            if not (p + "/").startswith(jail + "/") and not jail.startswith(p):
                out.add(meta(p))
    return out


def link_gate(n):
    """is_path_valid(link_dir.joinpath(target), dest) accepted => the target resolves lexically inside the destination"""
    r = ObResult(bounds="link at /jail/a/b/<link>, targets of exactly %d components over the alphabet (absolute ones included)" % n)
    eng = Engine([HP], intmode="int", unroll=20)
    dest = P.SPath(["/", "jail", "a"])
    P.install(eng, dest)
    cs = [eng.sym_int("t%d" % i, 3) for i in range(n)]
    linkdir = P.SPath(["/", "jail", "a", "b"])

    def harness(e):
        for c in cs:
            e.assume(e.compare(ast.Lt(), c, P.ALPHA))
        tgt = P.SName([P.C(c) for c in cs])
        try:
            ok = e.call(HP, "is_path_valid", linkdir.joinpath(e, tgt), dest)
        except ModelRaise as ex:
            return dict(exc=ex.name)
        if not ok:
            return dict(rejected=True)
        full = linkdir.joinpath(e, tgt)
        # lexical resolution of the link target from the link's directory
        stack = []
        for p_ in full.parts:
            if e.branch(P.ceq(e, p_, "..")):
                if len(stack) > 1:
                    stack.pop()
            else:
                stack.append(p_)
        inside = len(stack) >= len(dest.parts) and all(e.branch(P.ceq(e, a, b)) for a, b in zip(stack, dest.parts))
        return dict(inside=inside)

    def post(o):
        if "exc" in o or "rejected" in o:
            return None
        return [o["inside"]]

    decide(eng, harness, post, {"t%d" % i: c for i, c in enumerate(cs)}, r,
           describe=lambda o: "rejected" if "rejected" in o else str(o))
    _cex(r, "link_gate", lambda w: dict(module="vf.props.c03", func="replay_link_gate", kwargs=dict(
        target="/".join(P.NAMES[int(w["t%d" % i])] for i in range(n)))), signature=lambda w: {"obligation": "link_gate"})
    return r


def replay_link_gate(target):
    import os
    import pathlib

    from py7zr.helpers import is_path_valid

    dest = pathlib.Path("/jail/a")
    ok = is_path_valid(pathlib.Path("/jail/a/b").joinpath(target), dest)
    resolved = os.path.normpath(os.path.join("/jail/a/b", target))
    inside = (resolved + "/").startswith("/jail/a/")
    return (ok and not inside), "target %r accepted=%s resolves to %s" % (target, ok, resolved)


def units(tier):
    M = "vf.props.c03"
    us = []
    for n in range(1, (5 if tier == "quick" else 6) + 1):
        for dk in ("abs", "none"):
            us.append(Unit("1.sanitized_output[n=%d,dest=%s]" % (n, dk), M, "sanitized_output", dict(n=n, dest_kind=dk), 1800))
    for n in range(1, (4 if tier == "quick" else 5) + 1):
        us.append(Unit("2.link_gate[n=%d]" % n, M, "link_gate", dict(n=n), 1800))
    for kinds in (["f", "l", "lf", "ld"] if tier == "quick" else ["f", "l", "d", "lf", "fl", "ld", "dl", "ll", "llf", "lfl", "lld", "dlf"]):
        us.append(Unit("3.physical_step[%s]" % kinds, M, "physical_step", dict(kinds=kinds), 3000))
    # nested names fixed, every pair of link targets symbolic (the full name x target product is in the thorough tier)
    for kinds, names in [("llf", ["a", "a/b", "a/b/c.txt"]), ("lld", ["a", "a/b", "a/b/c"]), ("lll", ["a", "a/b", "a/b/c"])]:
        us.append(Unit("3.physical_step[%s,nested names]" % kinds, M, "physical_step", dict(kinds=kinds, fixed_names=names), 3000))
    for kinds in (["f", "lf"] if tier == "quick" else ["f", "d", "lf", "ld", "fl"]):
        us.append(Unit("3.physical_step[%s,sibling prefix]" % kinds, M, "physical_step", dict(kinds=kinds, sibling=True), 3000))
    return us


# ------------------------------------------------------- 3. physical step on a filesystem model
NAME_TABLE = ["a", "a/b", "a/b/c.txt", "b", "a/c.txt"]
TARGET_TABLE = [".", "..", "a", "../..", "b", "/base/outside"]
# names / targets that reach a SIBLING of the destination whose name merely starts with the destination's name
SIBLING_NAMES = ["../jailx/e.txt", "s", "s/e.txt", "../jail", "a"]
SIBLING_TARGETS = ["../jailx", "/base/jailx", ".", "..", "a", "b"]
JAIL = ("/", "base", "jail")


def validate_fs_model():
    """translator validation: the filesystem model vs the real OS on scripted operation sequences"""
    import os
    import random
    import shutil
    import tempfile

    from vf.harness import fakefs as F
    from vf.pysym.engine import Engine

    eng = Engine(["py7zr.helpers"], intmode="int")
    rnd = random.Random(3)
    checked = 0
    for trial in range(40):
        top = tempfile.mkdtemp(prefix="vf_fsm_")
        base = os.path.join(top, "p", "q")   # two levels of scratch above the jail: '../..' stays inside `top`
        os.makedirs(os.path.join(base, "jail"))
        fs = F.FS()
        for p in [PurePath_(base), PurePath_(base) / "jail"]:
            cur = ("/",)
            for comp in p.parts[1:]:
                cur = cur + (comp,)
                fs.nodes.setdefault(cur, ("dir",))
        names = ["a", "a/b", "b", "a/b/c", "b/x"]
        for step in range(6):
            nm = rnd.choice(names)
            op = rnd.choice(["mkdir", "symlink", "write", "touch", "unlink"])
            real = os.path.join(base, "jail", nm)
            fk = F.FakePath(fs, real, os.path.join(base, "jail"))
            tgt = rnd.choice([".", "..", "a", "../..", "b"])
            r_err = f_err = None
            try:
                if op == "mkdir":
                    pathlib_mkdir(real)
                elif op == "symlink":
                    os.symlink(tgt, real)
                elif op == "write":
                    with open(real, "wb") as fh:
                        fh.write(b"x")
                elif op == "unlink":
                    os.unlink(real)
                else:
                    pathlib_touch(real)
            except OSError as ex:
                r_err = type(ex).__name__
            try:
                if op == "mkdir":
                    fk.mkdir(eng, parents=True, exist_ok=True)
                elif op == "symlink":
                    fk.symlink_to(eng, tgt)
                elif op == "write":
                    fk.open(eng, "wb")
                elif op == "unlink":
                    fk.unlink(eng)
                else:
                    fk.touch(eng)
            except Exception as ex:  # noqa
                f_err = getattr(ex, "name", type(ex).__name__)
            assert (r_err is None) == (f_err is None), (trial, step, op, nm, tgt, r_err, f_err)
            checked += 1
        # compare the trees (kinds and link targets) under base
        real_tree = {}
        for root, dirs, files in os.walk(base, followlinks=False):
            for n_ in dirs + files:
                p = os.path.join(root, n_)
                k = "link" if os.path.islink(p) else ("dir" if os.path.isdir(p) else "file")
                real_tree[tuple(PurePath_(p).parts)] = k
        for root, dirs, files in os.walk(top, followlinks=False):
            for n_ in dirs + files:
                p = os.path.join(root, n_)
                k = "link" if os.path.islink(p) else ("dir" if os.path.isdir(p) else "file")
                real_tree[tuple(PurePath_(p).parts)] = k
        model_tree = {loc: v[0] for loc, v in fs.nodes.items() if len(loc) > len(PurePath_(top).parts)}
        assert real_tree == model_tree, (trial, sorted(real_tree.items()), sorted(model_tree.items()))
        # Path.resolve() (non-strict): the model's realpath against the OS, on existing, dangling and climbing paths
        realtop = os.path.realpath(top)
        for nm in names + ["a/../b", "a/b/../../x", "nosuch/../a", "a/b/c/d/e", "b/../../.."]:
            p_ = os.path.join(base, "jail", nm)
            try:
                want = os.path.realpath(p_)
                if os.path.realpath(top) != top:
                    want = want.replace(realtop, top, 1)
            except OSError:
                want = None
            try:
                got = "/" + "/".join(fs.realpath(PurePath_(p_))[1:])
            except Exception:  # noqa
                got = None
            if want is not None and got is not None:
                assert got == want, (trial, nm, got, want)
                checked += 1
        shutil.rmtree(top, ignore_errors=True)
    return checked


def PurePath_(p):
    from pathlib import PurePosixPath

    return PurePosixPath(p)


def pathlib_mkdir(p):
    import pathlib

    pathlib.Path(p).mkdir(parents=True, exist_ok=True)


def pathlib_touch(p):
    import pathlib

    pathlib.Path(p).touch()


def physical_step(kinds, fixed_names=None, sibling=False):
    """kinds: string over 'l' (symlink), 'f' (file), 'd' (directory): an archive of len(kinds) entries whose names and
    link targets are symbolic indices into small tables; extracted into an empty jail through the real _extract"""
    import zlib

    from vf.harness import extract as X
    from vf.harness import fakefs as F
    from vf.harness import readcases as RC
    from vf.harness import refwriter as W

    n = len(kinds)
    r = ObResult(bounds="archive of %d entries of kinds %r; names from %r, link targets from %r (symbolic choice); extraction "
                        "into the empty directory /base/jail on the filesystem model" % (n, kinds, fixed_names or NAME_TABLE, TARGET_TABLE))
    r.validated = validate_fs_model()
    eng = RC.mk_engine(unroll=1)
    ni = [eng.sym_int("name%d" % i, 3) for i in range(n)]
    ti = [eng.sym_int("target%d" % i, 3) for i in range(n)]
    size = eng.sym_int("size", 20)
    table = SIBLING_NAMES if sibling else NAME_TABLE
    TARGETS = SIBLING_TARGETS if sibling else TARGET_TABLE

    def pick(e, v, tbl):
        for k in range(len(tbl) - 1):
            if e.branch(e.compare(ast.Eq(), v, k)):
                return k
        return len(tbl) - 1

    def harness(e):
        fs = F.FS()
        for loc in [("/", "base"), JAIL] + ([("/", "base", "jailx")] if sibling else []):
            fs.nodes[loc] = ("dir",)
        F.install(e, fs, "/base/jail")
        e.overrides[("py7zr.properties", "get_memory_limit")] = lambda e_: 10 ** 6
        names, targets, entries = [], [], []
        for i, k in enumerate(kinds):
            e.assume(e.compare(ast.Lt(), ni[i], len(table)))
            nm = fixed_names[i] if fixed_names else table[pick(e, ni[i], table)]
            names.append(nm)
            if k == "l":
                e.assume(e.compare(ast.Lt(), ti[i], len(TARGETS)))
                tg = TARGETS[pick(e, ti[i], TARGETS)]
                targets.append(tg)
                entries.append(dict(kind="l", name=nm, size=len(tg), crc=zlib.crc32(tg.encode()), mtime=None, attributes=W.default_attributes("l")))
            else:
                targets.append(None)
                entries.append(dict(kind=k, name=nm, size=(size if k == "f" else 0), crc=e.sym_int("crc%d" % i, 32), mtime=None,
                                    attributes=W.default_attributes(k)))
        if len(set(names)) != len(names):
            return dict(skip="duplicate names")
        nd = sum(1 for k in kinds if k in "fl")
        layout = dict(folders=[nd] if nd else [], ncoders=[1] if nd else [], packsizes=[e.sym_int("pack", 30)] if nd else [],
                      crc_at="sub", coder_ids=[b"\x00"])
        z, fp, w = X.setup_read(e, entries, layout, consume="all-at-once")

        def link_text(e_, b):
            # the decoded text of a link member: identified by the byte range it was decoded from
            for x in b.items:
                if isinstance(x, X.Chunk):
                    for i_, (fi, off, sz) in w.member_range.items():
                        if entries[i_]["kind"] == "l" and (not hasattr(off, "sort")) and off == x.off:
                            return targets[i_]
                    for i_, (fi, off, sz) in w.member_range.items():
                        if entries[i_]["kind"] == "l" and e_.branch(e_.compare(ast.Eq(), off, x.off)):
                            return targets[i_]
            return NotImplemented

        e.decode_hook = link_text
        dest = F.FakePath(fs, "/base/jail", "/base/jail")
        try:
            e.method(z, "extractall", dest)
            outcome = "completed"
        except ModelRaise as ex:
            outcome = "raised " + ex.name
        return dict(effects=list(fs.effects), names=names, targets=targets, outcome=outcome)

    def post(o):
        if "skip" in o:
            return None
        bad = [(op, loc) for (op, loc) in o["effects"] if loc[:len(JAIL)] != JAIL]
        o["bad"] = bad
        return [not bad]

    inputs = {"name%d" % i: v for i, v in enumerate(ni)}
    inputs.update({"target%d" % i: v for i, v in enumerate(ti) if kinds[i] == "l"})
    decide(eng, harness, post, inputs, r, max_cex=2,
           describe=lambda o: o.get("skip") or "%s -> %s" % (list(zip(o["names"], o["targets"])), o["outcome"]))

    def entries_of(w):
        out = []
        for i, k in enumerate(kinds):
            nm = fixed_names[i] if fixed_names else table[min(int(w.get("name%d" % i, 0)), len(table) - 1)]
            tg = TARGETS[min(int(w.get("target%d" % i, 0)), len(TARGETS) - 1)] if k == "l" else None
            out.append((k, nm, tg))
        return out

    def sig(w):
        ents = entries_of(w)
        nlinks = sum(1 for (k, nm, tg) in ents if k == "l")

        def lex_inside(nm, tg):
            """does the link's target, taken purely lexically from the link's own directory, stay inside the jail?"""
            if tg.startswith("/"):
                return False
            depth = 0
            for comp in nm.split("/")[:-1] + tg.split("/"):
                if comp in ("", "."):
                    continue
                depth = depth - 1 if comp == ".." else depth + 1
                if depth < 0:
                    return False
            return True

        # the recorded finding is only about links each of which is fine lexically; a link that climbs out by itself is another matter
        lexical_ok = all(lex_inside(nm, tg) for (k, nm, tg) in ents if k == "l")
        return {"obligation": "physical_step",
                "class": "followed_links_created_by_earlier_entries" if nlinks >= 1 and lexical_ok else "other"}

    _cex(r, "physical_step", lambda w: dict(module="vf.props.c03", func="replay_physical", kwargs=dict(entries=entries_of(w))), signature=sig)
    for c in r.cex:
        c["witness"] = {"entries": entries_of(c["witness"])}
    return r


def replay_physical(entries):
    """build the archive with the reference writer (Copy codec), extract into a scratch jail whose parent is scratch too,
    and look for anything created or changed outside the jail"""
    import io
    import os
    import shutil
    import tempfile
    import zlib

    import py7zr
    from vf.harness import refwriter as W

    base = tempfile.mkdtemp(prefix="vf_c03p_")
    jail = os.path.join(base, "jail")
    os.mkdir(jail)
    os.mkdir(os.path.join(base, "jailx"))   # a sibling whose name starts with the destination's name
    ents, datas = [], []
    for (k, nm, tg) in entries:
        tg2 = tg.replace("/base/outside", os.path.join(base, "outside")).replace("/base/jailx", os.path.join(base, "jailx")) if tg else tg
        data = tg2.encode() if k == "l" else (b"payload" if k == "f" else b"")
        ents.append(dict(kind=k, name=nm, size=len(data), crc=zlib.crc32(data), mtime=None, attributes=W.default_attributes(k)))
        if k in "fl":
            datas.append(data)
    nd = len(datas)
    layout = dict(folders=[nd] if nd else [], ncoders=[1] if nd else [], packsizes=[sum(map(len, datas))] if nd else [],
                  crc_at="sub", coder_ids=[b"\x00"])
    img = W.seal(bytes(W.write_header(ents, layout, concrete=True)), b"".join(datas))
    before = _snapshot(base, jail)
    try:
        py7zr.SevenZipFile(io.BytesIO(img)).extractall(path=jail)
        outcome = "completed"
    except Exception as e:  # noqa
        outcome = "raised %r" % (e,)
    after = _snapshot(base, jail)
    os.chmod(base, 0o700)
    shutil.rmtree(base, ignore_errors=True)
    new = sorted(after - before)
    return bool(new), "entries %s: %s; created or changed outside the destination: %s" % (
        entries, outcome, [(p.replace(base, "<base>"), m) for (p, m, t_) in new])
