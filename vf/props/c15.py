"""C15 – a failed write call does not poison the archive."""
from __future__ import annotations

import ast
import io

from vf.common import ObResult, Unit
from vf.harness import session as S
from vf.props import c08
from vf.props.c17 import _cex
from vf.pysym import tokens
from vf.pysym.harness import decide
from vf.pysym.values import ModelRaise, SBytes, SFile

REF = "vf.ref7z"

ASSUMPTIONS = [
    "codec contract stub (StubCompressor): a failing source raises OSError either before any byte is consumed or midway "
    "(after the stage accounting was updated); lstat/open failures of write() sources are raised by the StubPath",
    "NUMBER token summary (C17), CRC abstraction, independent reference reader as in C07/C08",
    "one faulty call in a session of nold prior successful calls and `after` later successful calls (inductive in the "
    "session length: the pre-state is produced by the real code)",
]

FAULTS = {
    "badname_writestr": "writestr(b'x', '../evil') – name climbs above the root",
    "absname_writef": "writef(bio, '/abs/name') – absolute name",
    "src_before": "writef: reading the source raises before any byte",
    "src_midway": "writef: reading the source raises midway",
    "src_valueerror": "writef: reading the source raises ValueError (e.g. read of a closed file) before any byte",
    "stat_fails": "write(path): lstat raises EACCES",
    "open_fails": "write(path): open raises EACCES",
    "readlink_fails": "write(symlink): lstat succeeds, readlink raises EIO (the link became unreadable in between)",
    "badtype": "write(12345) – unsupported argument type",
}


def failed_write(nold, fault, after, append=False):
    """append=True: the session is an APPEND to a reference-written one-member archive read by the real reader"""
    from vf.harness import extract as X
    from vf.harness import readcases as RC

    r = ObResult(bounds="%s%d successful writestr calls, then the faulty call (%s), then %d successful calls, close; sizes symbolic"
                        % ("append session on a one-member base: " if append else "", nold, FAULTS[fault], after))
    eng, st = c08.mk_engine()
    sizes = [eng.sym_int("size%d" % i, 40) for i in range(nold + after + 1)]
    sym = RC.symbols(eng, "f") if append else None
    nbase = 1 if append else 0

    def harness(e):
        st.pop("compressors", None)
        if append:
            entries, layout = RC.build(e, "f", [1], {}, sym)
            z, fp, w = X.setup_read(e, entries, layout)
            z.attrs["mode"] = "a"
            z.attrs["encoded_header_mode"] = False
            e.method(z, "_prepare_append", None, None)
        else:
            z, fp = S.new_archive(e, header_mode="raw")
        good = []

        def ok_call(i):
            nm = "ok/m%d.bin" % i
            e.method(z, "writef", S.StubSource(sizes[i], "m%d" % i), nm)
            good.append((nm, i))

        for i in range(nold):
            ok_call(i)
        raised = None
        try:
            k = nold
            if fault == "badname_writestr":
                e.method(z, "writestr", SBytes(list(b"x")), "../evil")
            elif fault == "absname_writef":
                e.method(z, "writef", S.StubSource(sizes[k], "bad"), "/abs/name")
            elif fault == "src_before":
                e.method(z, "writef", S.StubSource(sizes[k], "bad", fail="before"), "bad.bin")
            elif fault == "src_midway":
                e.method(z, "writef", S.StubSource(sizes[k], "bad", fail="midway"), "bad.bin")
            elif fault == "src_valueerror":
                e.method(z, "writef", S.StubSource(sizes[k], "bad", fail="before_valueerror"), "bad.bin")
            elif fault == "stat_fails":
                e.method(z, "write", S.StubPath("src/bad", "file", sizes[k], "bad", fail="stat"), "bad.bin")
            elif fault == "open_fails":
                e.method(z, "write", S.StubPath("src/bad", "file", sizes[k], "bad", fail="open"), "bad.bin")
            elif fault == "readlink_fails":
                e.method(z, "write", S.StubPath("src/unreadable-link", "link", 0, "bad"), "bad.lnk")
            elif fault == "badtype":
                e.method(z, "write", 12345, "bad.bin")
        except ModelRaise as ex:
            raised = ex.name
        later_exc = None
        try:
            for j in range(after):
                ok_call(nold + 1 + j)
            e.method(z, "close")
        except ModelRaise as ex:
            later_exc = "%s%s" % (ex.name, str(ex.eargs)[:60])
        o = dict(raised=raised, later_exc=later_exc, good=good, comps=st.get("compressors", []))
        if later_exc is None:
            hdr, start, sig = S.header_items(fp)
            try:
                o["ref"] = e.call(REF, "rd_header", SFile(hdr))
                o["map"] = e.call(REF, "member_map", o["ref"])
            except ModelRaise as ex:
                o["ref_error"] = ex.name
        return o

    def post(o):
        c = [o["raised"] is not None]
        if fault in ("badname_writestr", "absname_writef", "badtype"):
            c.append(o["raised"] == "ValueError")
        c.append(o["later_exc"] is None)  # the failed source is not retried behind the caller's back; close() works
        if o["later_exc"] is not None:
            return c
        if fault == "src_midway":
            return c  # header vs content after a midway failure is settled by the CRC checks (C04)
        if "ref_error" in o:
            return False
        files, mm = o["ref"]["files"], o["map"]
        c.append(len(files) == nbase + len(o["good"]))
        if len(files) != nbase + len(o["good"]):
            return c
        if append:
            # the member of the base archive is still there, with its size and CRC
            c.append(eng.compare(ast.Eq(), mm[0]["size"], sym["size"][0]))
            c.append(mm[0]["crc"] is not None and eng.compare(ast.Eq(), mm[0]["crc"], sym["crc"][0]))
        comp = o["comps"][-1] if o["comps"] else None
        for pos, (nm, i) in enumerate(o["good"]):
            c.append(files[nbase + pos].get("name_units") == [ord(ch) for ch in nm])
            if comp is None or pos >= len(comp.members):
                return False
            insize, crc = comp.members[pos]
            c.append(eng.compare(ast.Eq(), mm[nbase + pos]["size"], sizes[i]))
            c.append(mm[nbase + pos]["crc"] is not None)
            if mm[nbase + pos]["crc"] is not None:
                c.append(eng.compare(ast.Eq(), mm[nbase + pos]["crc"], crc))
        return c

    decide(eng, harness, post, {"size%d" % i: s for i, s in enumerate(sizes)}, r,
           describe=lambda o: "raised=%s later=%s members=%s" % (o["raised"], o["later_exc"], len(o["good"])))
    _cex(r, "failed_write", lambda w_: dict(module="vf.props.c15", func="replay", kwargs=dict(nold=nold, fault=fault, after=after, append=append)),
         signature=lambda w_: {"obligation": "failed_write", "fault": "source" if fault in ("src_before", "src_midway", "open_fails", "src_valueerror") else fault})
    return r


def replay(nold, fault, after, append=False):
    import os
    import tempfile

    import py7zr
    from py7zr.io import BytesIOFactory

    class Faulty(io.BufferedIOBase):
        def __init__(self, n, fail_after):
            self.n, self.pos, self.fail_after = n, 0, fail_after

        def seek(self, off, whence=0):
            self.pos = {0: off, 1: self.pos + off, 2: self.n + off}[whence]
            return self.pos

        def tell(self):
            return self.pos

        def read(self, size=-1):
            if self.pos >= self.fail_after:
                raise OSError(5, "Input/output error")
            k = min(size if size >= 0 else self.n, self.n - self.pos, max(self.fail_after - self.pos, 0))
            self.pos += k
            return b"z" * k

    d = tempfile.mkdtemp(prefix="vf_c15_")
    p = os.path.join(d, "a.7z")
    expect = {}
    try:
        if append:
            with py7zr.SevenZipFile(p, "w", filters=[{"id": py7zr.FILTER_COPY}]) as z0:
                z0.writestr(b"base member", "base.bin")
            expect["base.bin"] = b"base member"
            z = py7zr.SevenZipFile(p, "a", filters=[{"id": py7zr.FILTER_COPY}])
        else:
            z = py7zr.SevenZipFile(p, "w", filters=[{"id": py7zr.FILTER_COPY}])

        def ok(i):
            data = bytes([65 + i]) * (10 + i)
            z.writestr(data, "ok/m%d.bin" % i)
            expect["ok/m%d.bin" % i] = data

        for i in range(nold):
            ok(i)
        raised = None
        try:
            if fault == "badname_writestr":
                z.writestr(b"x", "../evil")
            elif fault == "absname_writef":
                z.writef(io.BytesIO(b"x"), "/abs/name")
            elif fault == "src_before":
                z.writef(Faulty(3000000, 0), "bad.bin")
            elif fault == "src_midway":
                z.writef(Faulty(3000000, 1500000), "bad.bin")
            elif fault == "src_valueerror":
                f_ = Faulty(3000000, 0)
                f_.read = lambda size=-1: (_ for _ in ()).throw(ValueError("read of closed file"))
                z.writef(f_, "bad.bin")
            elif fault in ("stat_fails", "open_fails"):
                q = os.path.join(d, "secret")
                open(q, "wb").write(b"s")
                if fault == "stat_fails":
                    z.write(os.path.join(d, "missing-file"), "bad.bin")
                else:
                    os.chmod(q, 0)
                    if os.geteuid() == 0:
                        os.remove(q)
                        os.mkfifo(q)  # root ignores modes: use an unreadable kind instead
                        fd = os.open(q, os.O_RDWR)  # keep open() from blocking
                    z.write(q, "bad.bin")
            elif fault == "readlink_fails":
                q = os.path.join(d, "unreadable-link")
                os.symlink("somewhere", q)
                import py7zr.helpers as H
                import py7zr.py7zr as P

                saved = (P.readlink, H.readlink)

                def failing(path, *a, **k):
                    if str(path).endswith("unreadable-link"):
                        raise OSError(5, "Input/output error")
                    return saved[1](path, *a, **k)

                P.readlink = H.readlink = failing
                try:
                    z.write(q, "bad.lnk")
                finally:
                    P.readlink, H.readlink = saved
            elif fault == "badtype":
                z.write(12345, "bad.bin")
        except Exception as ex:  # noqa
            raised = ex
        if raised is None:
            if fault == "open_fails":
                return False, "could not provoke an open failure in this environment"
            return True, "the faulty call did not raise"
        try:
            for j in range(after):
                ok(nold + 1 + j)
            z.close()
        except Exception as ex:  # noqa
            return True, "after the failed call (%r) a later call / close() raised %r" % (raised, ex)
        if fault == "src_midway":
            try:
                fac = BytesIOFactory(10 ** 7)
                py7zr.SevenZipFile(p).extractall(factory=fac)
                got = {k: v.read() for k, v in fac.products.items()}
            except Exception:
                return False, "archive rejected after a midway failure (allowed)"
            bad = {k for k, v in got.items() if k in expect and v != expect[k]}
            return bool(bad), "opens; members with wrong content: %s" % sorted(bad)
        try:
            zz = py7zr.SevenZipFile(p)
            fac = BytesIOFactory(10 ** 7)
            zz.extractall(factory=fac)
            got = {k: v.read() for k, v in fac.products.items()}
        except Exception as ex:  # noqa
            return True, "archive unreadable after a rejected call: %r" % (ex,)
        if got != expect:
            return True, "members %s, expected %s" % (sorted(got), sorted(expect))
        return False, "archive unaffected by the failed call"
    finally:
        import shutil

        shutil.rmtree(d, ignore_errors=True)


def units(tier):
    M = "vf.props.c15"
    us = []
    for fault in FAULTS:
        for nold in ((0, 1) if tier == "quick" else (0, 1, 2)):
            for after in ((0, 1) if tier == "quick" else (0, 1, 2)):
                us.append(Unit("failed_write[%s,nold=%d,after=%d]" % (fault, nold, after), M, "failed_write",
                               dict(nold=nold, fault=fault, after=after), 900))
    # the same faults as the FIRST call of an append session (then 0 or 1 successful calls)
    for fault in FAULTS:
        for after in ((0, 1) if tier == "quick" else (0, 1, 2)):
            us.append(Unit("failed_write[append,%s,after=%d]" % (fault, after), M, "failed_write",
                           dict(nold=0, fault=fault, after=after, append=True), 900))
    return us
