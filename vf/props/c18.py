"""C18 – progress callbacks give a complete, well-ordered account (single-worker event stream; schedules outside)."""
from __future__ import annotations

import ast
import queue
import threading

import z3

from vf.common import ObResult, Unit
from vf.harness import extract as X
from vf.harness import readcases as RC
from vf.harness.session import Queue
from vf.props import c06
from vf.props.c17 import _cex
from vf.pysym.harness import decide
from vf.pysym.models import Native, StrOf
from vf.pysym.values import ModelRaise, is_sym

PZ = "py7zr.py7zr"

ASSUMPTIONS = c06.ASSUMPTIONS + [
    "threading.Thread is a stub whose start() does nothing (the reporter thread is checked separately by running the real "
    "reporter() on a recorded queue); time.time() returns arbitrary non-decreasing values",
    "every interleaving of worker threads and the reporter thread, blocking callbacks and 'no event after close() returns' "
    "need a scheduler and are OUTSIDE this check",
]


class _Thread(Native):
    def __init__(self, target=None, args=(), daemon=None):
        self.target, self.args, self.started, self.joined = target, args, False, False

    def start(self, eng):
        self.started = True

    def join(self, eng, timeout=None):
        self.joined = True

    def is_alive(self, eng):
        return False


class _Callback(Native):
    from py7zr.callbacks import ExtractCallback as _EC

    isa = (_EC,)

    def __init__(self):
        self.calls = []

    def report_start_preparation(self, eng):
        self.calls.append(("pre",))

    def report_start(self, eng, a, b):
        self.calls.append(("s", a, b))

    def report_update(self, eng, b):
        self.calls.append(("u", b))

    def report_end(self, eng, a, b):
        self.calls.append(("e", a, b))

    def report_postprocess(self, eng):
        self.calls.append(("post",))

    def report_warning(self, eng, m):
        self.calls.append(("w", m))


def _val(x):
    return x.term if isinstance(x, StrOf) else (int(x) if isinstance(x, str) and x.isdigit() else x)


def events(pattern, folders, opts, unroll=2):
    n = len(pattern)
    r = ObResult(bounds="layout %s; extract(T, callback) for every subset T; clock arbitrary non-decreasing; <= %d decoder "
                        "calls per member; sizes symbolic" % (RC.shape_name(pattern, folders, opts), unroll))
    eng = RC.mk_engine(unroll=unroll)
    eng.models.reg(threading.Thread, lambda e, **k: _Thread(**k))
    sym = RC.symbols(eng, pattern)
    sel = [z3.Bool("sel%d" % i) for i in range(n)]
    clock = {"n": 0, "last": 0}

    def now(e):
        clock["n"] += 1
        t = e.sym_int("t!%d" % clock["n"], 40)
        e.assume(e.compare(ast.GtE(), t, clock["last"]))
        clock["last"] = t
        return t

    def harness(e):
        clock.update(n=0, last=0)
        entries, layout = RC.build(e, pattern, folders, opts, sym)
        try:
            z, fp, w = X.setup_read(e, entries, layout, consume="all-at-once")
        except ModelRaise as ex:
            return dict(exc="open:" + ex.name)
        import time

        e.models.reg(time.time, now)
        chosen = [i for i in range(n) if e.branch(sel[i])]
        cb = _Callback()
        try:
            e.method(z, "extract", None, [entries[i]["name"] for i in chosen], callback=cb, factory=X.StubFactory(w))
        except ModelRaise as ex:
            return dict(exc=ex.name + str(ex.eargs)[:60])
        return dict(q=z.attrs["q"].items, entries=entries, world=w, chosen=set(chosen), thread=z.attrs["reporterd"])

    def post(o):
        if "exc" in o:
            return False
        q, entries, w = o["q"], o["entries"], o["world"]
        c = [len(q) >= 2, q[0] == ("pre", None, None), q[-1] == ("post", None, None)]
        c.append(o["thread"] is not None and o["thread"].started)
        body = q[1:-1]
        c.append(all(it[0] in ("s", "u", "e") for it in body))
        # group: s (u*) e per processed member
        i, per = 0, []
        while i < len(body):
            if body[i][0] != "s":
                return False
            name = body[i][1]
            us, j = [], i + 1
            while j < len(body) and body[j][0] == "u":
                us.append(body[j][2])
                j += 1
            if j >= len(body) or body[j][0] != "e" or body[j][1] != name:
                return False
            per.append((name, us, body[j][2]))
            i = j + 1
        names = [p[0] for p in per]
        c.append(len(set(names)) == len(names))
        # every delivered (selected) member is reported
        for i_ in o["chosen"]:
            if entries[i_]["kind"] != "d":
                c.append(entries[i_]["name"] in names)
        byname = {en["name"]: k for k, en in enumerate(entries)}
        for (name, us, endsize) in per:
            k = byname.get(name)
            if k is None:
                return False
            size = w.member_range[k][2] if k in w.member_range else 0
            c.append(eng.compare(ast.Eq(), _val(endsize), size))
            if k in o["chosen"] and k in w.member_range:
                tot = 0
                for u in us:
                    tot = eng.binop(ast.Add(), tot, _val(u))
                c.append(eng.compare(ast.Eq(), tot, size))
        return c

    inputs = dict(RC.inputs_of(sym, pattern, folders))
    inputs.update({"sel%d" % i: s for i, s in enumerate(sel)})
    decide(eng, harness, post, inputs, r, describe=lambda o: o.get("exc") or " ".join(it[0] for it in o["q"]))
    r.note = (r.note + " cut_paths=%d" % eng.cut_paths).strip()
    _cex(r, "events", lambda w_: dict(module="vf.props.c18", func="replay_events", kwargs=dict(
        pattern=pattern, folders=folders, opts=opts, selected=[i for i in range(n) if w_.get("sel%d" % i)],
        witness={k: int(v) for k, v in w_.items() if isinstance(v, int) and not isinstance(v, bool)})),
         signature=lambda w_: {"obligation": "events"})
    return r


def replay_events(pattern, folders, opts, selected, witness):
    import io

    import py7zr
    from py7zr.callbacks import ExtractCallback
    from py7zr.io import BytesIOFactory

    img, entries, datas = c06.concrete_case(pattern, folders, opts, witness)
    log = []

    class CB(ExtractCallback):
        def report_start_preparation(self):
            log.append(("pre",))

        def report_start(self, p, b):
            log.append(("s", p, b))

        def report_update(self, b):
            log.append(("u", b))

        def report_end(self, p, b):
            log.append(("e", p, b))

        def report_postprocess(self):
            log.append(("post",))

        def report_warning(self, m):
            log.append(("w", m))

    names = [entries[i]["name"] for i in selected]
    for slow in (False, True):
        del log[:]
        verdict = _replay_once(py7zr, img, entries, datas, names, CB, log, slow)
        if verdict[0]:
            return verdict
    return verdict


def _replay_once(py7zr, img, entries, datas, names, CB, log, slow):
    import io

    import py7zr.py7zr as pz
    from py7zr.io import BytesIOFactory

    saved = (pz.get_memory_limit, pz.time)
    if slow:
        # the environment the symbolic clock / chunking stand for: several decode passes per member, >= 1 s between them
        class Clock:
            now = 0.0

            def time(self):
                Clock.now += 1.5
                return Clock.now

        pz.get_memory_limit = lambda: 3
        pz.time = Clock()
    try:
        z = py7zr.SevenZipFile(io.BytesIO(img))
        z.extract(targets=names, callback=CB(), factory=BytesIOFactory(10 ** 6))
        z.close()
    finally:
        pz.get_memory_limit, pz.time = saved
    sizes = {}
    di = 0
    for en in entries:
        if en["kind"] in "fl":
            sizes[en["name"]] = len(datas[di])
            di += 1
        else:
            sizes[en["name"]] = 0
    if not log or log[0] != ("pre",) or log[-1] != ("post",):
        return True, "pre/post not first/last: %s" % log
    starts = [x[1] for x in log if x[0] == "s"]
    ends = [(x[1], x[2]) for x in log if x[0] == "e"]
    if len(set(starts)) != len(starts) or [e[0] for e in ends] != starts:
        return True, "start/end events do not pair up: %s" % log
    for nm, b in ends:
        if int(b) != sizes[nm]:
            return True, "end event of %s reports %s bytes, member has %d" % (nm, b, sizes[nm])
    for nm in names:
        if nm not in starts and sizes.get(nm) is not None and [e for e in entries if e["name"] == nm][0]["kind"] != "d":
            return True, "no events for delivered member %s" % nm
    tot = sum(int(x[1]) for x in log if x[0] == "u")
    want = sum(sizes[nm] for nm in names)
    if tot != want and set(starts) <= set(names):
        return True, "update events sum to %d, delivered bytes %d" % (tot, want)
    return False, "event stream well-formed"


def one_reporter(seq):
    """call sequences with callbacks in ONE read session: a reporter thread is only started when no earlier one still listens
    to the session's queue (otherwise two threads take items from one queue: events go to the wrong callback, and the single
    sentinel close() posts ends only one of them)"""
    r = ObResult(bounds="archive ff/2, session %r (A = extractall with a callback, E = extract of the last member with a "
                        "callback, R = reset); sizes symbolic; thread and queue are recording stand-ins" % seq)
    eng = RC.mk_engine(unroll=1)
    sym = RC.symbols(eng, "ff")
    log = []
    threads = []

    class Th(Native):
        def __init__(self, target=None, args=(), daemon=None):
            self.alive = False

        def start(self, eng_):
            self.alive = True
            threads.append(self)
            log.append(("start", self))

        def join(self, eng_, timeout=None):
            log.append(("join", self))

        def is_alive(self, eng_):
            return self.alive

    def harness(e):
        del log[:]
        del threads[:]
        entries, layout = RC.build(e, "ff", [2], {}, sym)
        z, fp, w = X.setup_read(e, entries, layout, consume="all-at-once")
        e.models.reg(threading.Thread, lambda e_, **k: Th(**k))
        q = z.attrs["q"]
        live_at_start = []
        orig_put = q.put

        class QLog(Native):
            """the session's queue: a sentinel ends the reporter that was started first among the live ones"""

            def put(self, eng_, item, *a, **k):
                log.append(("put", item))
                if item is None:
                    for t_ in threads:      # the sentinel ends the reporter that has been listening longest
                        if t_.alive:
                            t_.alive = False
                            break

            def put_nowait(self, eng_, item):
                self.put(eng_, item)

        z.attrs["q"] = QLog()
        for op in seq:
            try:
                if op == "A":
                    e.method(z, "extractall", callback=_Callback(), factory=X.StubFactory(w))
                elif op == "E":
                    e.method(z, "extract", None, [entries[1]["name"]], callback=_Callback(), factory=X.StubFactory(w))
                else:
                    e.method(z, "reset")
            except ModelRaise as ex:
                return dict(exc=ex.name + str(ex.eargs)[:60])
        # replay the log: how many reporters listen when a new one starts?
        live, worst = 0, 0
        for kind, x in log:
            if kind == "start":
                worst = max(worst, live)
                live += 1
            elif kind == "put" and x is None and live > 0:
                live -= 1
        return dict(worst=worst, starts=sum(1 for k_, _ in log if k_ == "start"))

    def post(o):
        if "exc" in o:
            return False
        return [o["worst"] == 0]

    decide(eng, harness, post, RC.inputs_of(sym, "ff", [2]), r, describe=lambda o: o.get("exc") or "%d reporter threads started, %d already listening at a start" % (o["starts"], o["worst"]))
    _cex(r, "one_reporter", lambda w_: dict(module="vf.props.c18", func="replay_one_reporter", kwargs=dict(seq=seq)),
         signature=lambda w_: {"obligation": "one_reporter"})
    return r


def replay_one_reporter(seq):
    """the real thing: the same calls, then close(); every callback must have seen a complete account of ITS extraction"""
    import io
    import threading as th

    import py7zr
    from py7zr.callbacks import ExtractCallback
    from py7zr.io import NullIOFactory

    class CB(ExtractCallback):
        def __init__(self):
            self.ev = []

        def report_start_preparation(self):
            self.ev.append("pre")

        def report_start(self, p, b):
            self.ev.append("s")

        def report_update(self, b):
            self.ev.append("u")

        def report_end(self, p, b):
            self.ev.append("e")

        def report_postprocess(self):
            self.ev.append("post")

        def report_warning(self, m):
            self.ev.append("w")

    buf = io.BytesIO()
    with py7zr.SevenZipFile(buf, "w", filters=[{"id": py7zr.FILTER_COPY}]) as z:
        for i in range(2):
            z.writestr(b"x" * 50, "m%d" % i)
    for trial in range(10):
        buf.seek(0)
        z = py7zr.SevenZipFile(buf)
        cbs = []
        before = th.active_count()
        for op in seq:
            if op == "R":
                z.reset()
                continue
            cb = CB()
            cbs.append((op, cb))
            if op == "A":
                z.extractall(factory=NullIOFactory(), callback=cb)
            else:
                z.extract(targets=["m1"], factory=NullIOFactory(), callback=cb)
        try:
            z.close()
        except Exception as e:  # noqa
            return True, "after %r close() raised %r" % (seq, e)
        for op, cb in cbs:
            # (a member that is only decoded on the way to a selected one is reported as well: 1 or 2 members for E)
            ok_n = cb.ev.count("s") == cb.ev.count("e") and (cb.ev.count("s") == 2 if op == "A" else cb.ev.count("s") in (1, 2))
            if cb.ev[:1] != ["pre"] or cb.ev[-1:] != ["post"] or not ok_n:
                return True, "after %r a callback of %s saw %s" % (seq, op, cb.ev)
    return False, "every callback saw the complete account of its own extraction, close() returned"


def events_parallel(mp):
    """the thread-/process-parallel branch (archive opened by path, two folders): every member still gets its start and end
    event in the session's queue.  Workers run one after the other (one schedule); a worker PROCESS works on copies of its
    arguments - a plain queue.Queue is not shared with it"""
    r = ObResult(bounds="archive ff/1+1 opened by path, mp=%s, extractall with a callback; sizes symbolic; one schedule" % mp)
    eng = RC.mk_engine(unroll=1)
    sym = RC.symbols(eng, "ff")

    def harness(e):
        entries, layout = RC.build(e, "ff", [1, 1], {}, sym)
        z, fp, w = X.setup_read(e, entries, layout, consume="all-at-once", name="arch.7z", mp=mp)
        try:
            e.method(z, "extractall", callback=_Callback(), factory=X.StubFactory(w))
        except ModelRaise as ex:
            return dict(exc=ex.name + str(ex.eargs)[:60])
        return dict(q=list(z.attrs["q"].items), entries=entries)

    def post(o):
        if "exc" in o:
            return False
        q = o["q"]
        c = [len(q) >= 2 and q[0][0] == "pre" and q[-1][0] == "post"]
        for en in o["entries"]:
            c.append(sum(1 for it in q if it[0] == "s" and it[1] == en["name"]) == 1)
            c.append(sum(1 for it in q if it[0] == "e" and it[1] == en["name"]) == 1)
        return c

    decide(eng, harness, post, RC.inputs_of(sym, "ff", [1, 1]), r, describe=lambda o: o.get("exc") or " ".join(it[0] for it in o["q"]))
    _cex(r, "events_parallel", lambda w_: dict(module="vf.props.c18", func="replay_events_parallel", kwargs=dict(mp=mp)),
         signature=lambda w_: {"obligation": "events_parallel", "mp": mp})
    return r


def replay_events_parallel(mp):
    import os
    import shutil
    import tempfile

    import py7zr
    from py7zr.callbacks import ExtractCallback

    class CB(ExtractCallback):
        def __init__(self):
            self.ev = []

        def report_start_preparation(self):
            self.ev.append("pre")

        def report_start(self, p, b):
            self.ev.append("s:" + p)

        def report_update(self, b):
            self.ev.append("u")

        def report_end(self, p, b):
            self.ev.append("e:" + p)

        def report_postprocess(self):
            self.ev.append("post")

        def report_warning(self, m):
            self.ev.append("w")

    d = tempfile.mkdtemp(prefix="vf_c18p_")
    try:
        p = os.path.join(d, "a.7z")
        with py7zr.SevenZipFile(p, "w", filters=[{"id": py7zr.FILTER_COPY}]) as z:
            z.writestr(b"A" * 100, "m0")
        with py7zr.SevenZipFile(p, "a", filters=[{"id": py7zr.FILTER_COPY}]) as z:
            z.writestr(b"B" * 100, "m1")
        cb = CB()
        with py7zr.SevenZipFile(p, mp=mp) as z:
            z.extractall(os.path.join(d, "out"), callback=cb)
        bad = any(cb.ev.count(x) != 1 for x in ("s:m0", "e:m0", "s:m1", "e:m1"))
        return bad, "mp=%s: the callback saw %s" % (mp, cb.ev)
    finally:
        shutil.rmtree(d, ignore_errors=True)


def reporter_dispatch():
    """the real reporter() loop on a recorded queue: each item kind reaches the right callback method, in order; stops at
    the sentinel; queue.Empty timeouts (symbolic) change nothing; close() posts the sentinel and joins"""
    r = ObResult(bounds="queue of 6 items (one of each kind, unknown kind included) + sentinel; a symbolic number (<= 1) of "
                        "empty-queue timeouts before each item")
    eng = RC.mk_engine()
    empties = [eng.sym_int("empty_before_%d" % i, 2) for i in range(8)]

    class Q(Native):
        def __init__(self, e, items):
            self.e, self.items, self.i, self.waited, self.done = e, items, 0, 0, 0

        def get(self, eng, timeout=None):
            lim = empties[self.i]
            if eng.branch(eng.compare(ast.Lt(), self.waited, lim)):
                self.waited += 1
                raise ModelRaise("Empty", cls=queue.Empty)
            self.waited = 0
            it = self.items[self.i]
            self.i += 1
            return it

        def task_done(self, eng):
            self.done += 1

        def put_nowait(self, eng, x):
            self.items.append(x)

    items = [("pre", None, None), ("s", "a", "10"), ("u", None, "4"), ("w", "warn", None), ("zz", None, None),
             ("e", "a", "10"), ("post", None, None)]

    def harness(e):
        for x in empties:
            e.assume(e.compare(ast.LtE(), x, 1))
            e.assume(e.compare(ast.GtE(), x, 0))
        from vf.pysym.values import SObj

        z = SObj(e.cls(PZ, "SevenZipFile"))
        q = Q(e, list(items))
        cb = _Callback()
        th = _Thread()
        z.attrs.update(q=q, mode="r", reporterd=th, _filePassed=True, fp=None, worker=None)
        # close(): sentinel + join, then the reporter drains the queue
        e.overrides[(PZ, "SevenZipFile._var_release")] = lambda e_, s: None
        e.method(z, "close")
        e.method(z, "reporter", cb)
        return dict(calls=cb.calls, q=q, th=th, z=z)

    def post(o):
        want = [("pre",), ("s", "a", "10"), ("u", "4"), ("w", "warn"), ("e", "a", "10"), ("post",)]
        return [o["calls"] == want, o["q"].items[-1] is None, o["th"].joined, o["z"].attrs["reporterd"] is None,
                o["q"].done == len(items)]

    decide(eng, harness, post, {"empty_before_%d" % i: x for i, x in enumerate(empties)}, r,
           describe=lambda o: "%d callbacks" % len(o["calls"]))
    _cex(r, "reporter", lambda w_: dict(module="vf.props.c18", func="replay_reporter", kwargs={}),
         signature=lambda w_: {"obligation": "reporter"})
    return r


def replay_reporter():
    import queue as _q

    import py7zr
    from py7zr.callbacks import ExtractCallback

    calls = []

    class CB(ExtractCallback):
        def report_start_preparation(self):
            calls.append(("pre",))

        def report_start(self, p, b):
            calls.append(("s", p, b))

        def report_update(self, b):
            calls.append(("u", b))

        def report_end(self, p, b):
            calls.append(("e", p, b))

        def report_postprocess(self):
            calls.append(("post",))

        def report_warning(self, m):
            calls.append(("w", m))

    z = object.__new__(py7zr.SevenZipFile)
    z.q = _q.Queue()
    for it in [("pre", None, None), ("s", "a", "10"), ("u", None, "4"), ("w", "warn", None), ("zz", None, None),
               ("e", "a", "10"), ("post", None, None), None]:
        z.q.put(it)
    z.reporter(CB())
    want = [("pre",), ("s", "a", "10"), ("u", "4"), ("w", "warn"), ("e", "a", "10"), ("post",)]
    return calls != want, "callbacks: %s" % calls


def units(tier):
    M = "vf.props.c18"
    us = [Unit("reporter_dispatch", M, "reporter_dispatch", {}, 600)]
    for mp_ in (False, True):
        us.append(Unit("events_parallel[mp=%s]" % mp_, M, "events_parallel", dict(mp=mp_), 900))
    for sq in (["A", "ARA", "ARE"] if tier == "quick" else ["A", "E", "ARA", "ARE", "ERA", "ARARA"]):
        us.append(Unit("one_reporter[%s]" % sq, M, "one_reporter", dict(seq=sq), 900))
    shapes = [("ff", [2], {}), ("ff", [1, 1], {}), ("fdf", [2], {}), ("fef", [1, 1], {"emptyfile_vector": True})]
    if tier == "thorough":
        shapes += [("fff", [2, 1], {}), ("fdff", [2, 1], {})]
    for (p, f, o) in shapes:
        us.append(Unit("events[%s]" % RC.shape_name(p, f, o), M, "events", dict(pattern=p, folders=f, opts=o,
                                                                              unroll=2 if tier == "quick" else 3), 3600))   # (measured: fdff/2+1 at 3 decoder calls per member = 27 min)
    return us
