"""C09 – selective extraction equals the restriction of full extraction."""
from __future__ import annotations

import ast

import z3

from vf.common import ObResult, Unit
from vf.harness import extract as X
from vf.harness import readcases as RC
from vf.props import c06
from vf.props.c17 import _cex
from vf.pysym.harness import decide
from vf.pysym.values import ModelRaise

ASSUMPTIONS = c06.ASSUMPTIONS + [
    "the selection T is symbolic: one boolean per member name, plus an absent name, each optionally with a trailing '/', "
    "given as list or set (concrete shard parameter), recursive symbolic per shard",
    "to_path: pathlib is bound to the in-memory filesystem model (vf/harness/fakefs.py, validated against the OS each run by "
    "C03); member names form a tree (a file may live in an earlier directory entry)",
]


def selective(pattern, folders, opts, recursive, as_set, unroll=1, extras=False):
    n = len(pattern)
    r = ObResult(bounds="layout %s; extract(targets=T, recursive=%s, factory) for every subset T of the %d member names "
                        "(absent name and trailing slashes: %s), T as %s; <= %d decoder calls per member; sizes/CRCs symbolic"
                        % (RC.shape_name(pattern, folders, opts), recursive, n, extras, "set" if as_set else "list", unroll))
    eng = RC.mk_engine(unroll=unroll)
    sym = RC.symbols(eng, pattern)
    sel = [z3.Bool("sel%d" % i) for i in range(n)]
    absent = slash = extras  # an absent name in T and trailing slashes on every target: shard parameter

    def harness(e):
        entries, layout = RC.build(e, pattern, folders, opts, sym, names=opts.get("names"))
        try:
            z, fp, w = X.setup_read(e, entries, layout, consume="all-at-once")
        except ModelRaise as ex:
            return dict(exc="open:" + ex.name)
        targets, chosen = [], set()
        sl = slash
        for i, en in enumerate(entries):
            if e.branch(sel[i]):
                targets.append(en["name"] + ("/" if sl else ""))
                chosen.add(i)
        if absent:
            targets.append("no/such/member")
        fac = X.StubFactory(w)
        try:
            e.method(z, "extract", None, set(targets) if as_set else targets, recursive, factory=fac)
        except ModelRaise as ex:
            return dict(exc=ex.name + str(ex.eargs)[:80], targets=targets)
        # with recursive, members beneath a selected directory are selected as well
        if recursive:
            for i in list(chosen):
                for j, en in enumerate(entries):
                    if en["name"].startswith(entries[i]["name"] + "/"):
                        chosen.add(j)
        return dict(world=w, entries=entries, chosen=chosen, targets=targets, fp=fp)

    def post(o):
        if "exc" in o:
            return False
        w = o["world"]
        c = c06.delivery_conditions(eng, w, o["entries"], o["chosen"])
        # (which folders get decoded on the way is an efficiency matter, not part of the property: a selected empty
        #  file makes the real code decode-and-discard its unselected predecessors)
        c.append(len(o["fp"].writes) == 0)
        return c

    inputs = RC.inputs_of(sym, pattern, folders)
    inputs.update({"sel%d" % i: s for i, s in enumerate(sel)})
    decide(eng, harness, post, inputs, r, describe=lambda o: o.get("exc") or "T=%s -> %s" % (o["targets"], sorted(X.delivered(o["world"]).keys())))
    r.note = (r.note + " cut_paths=%d" % eng.cut_paths).strip()

    def rp(w_):
        names = opts.get("names") or RC.NAMES
        t = [names[i] + ("/" if slash else "") for i in range(n) if w_.get("sel%d" % i)]
        if absent:
            t.append("no/such/member")
        return dict(module="vf.props.c09", func="replay", kwargs=dict(
            pattern=pattern, folders=folders, opts=opts, targets=t, recursive=recursive, as_set=as_set,
            witness={k: int(v) for k, v in w_.items() if isinstance(v, int) and not isinstance(v, bool)}))

    _cex(r, "selective", rp, signature=lambda w_: c06._sig("selective", pattern, folders, opts))
    return r


def selective_to_path(pattern, folders, opts, recursive):
    """extract(path, targets=T) on the filesystem model: exactly the selected members and the parent directories they need"""
    from vf.harness import fakefs as F
    from vf.pysym.models import Native

    n = len(pattern)
    names = c06.tree_names(pattern)
    r = ObResult(bounds="layout %s with tree names %s; extract(<directory>, targets=T, recursive=%s) for every subset T; filesystem "
                        "model; one decoder call per member; sizes/CRCs symbolic" % (RC.shape_name(pattern, folders, opts), names, recursive))
    eng = RC.mk_engine(unroll=1)
    sym = RC.symbols(eng, pattern)
    sel = [z3.Bool("sel%d" % i) for i in range(n)]

    class TS(Native):
        def __init__(self, v):
            self.v = v

        def totimestamp(self, e):
            return ("ts", self.v)

    def harness(e):
        fs = F.FS()
        for loc in [("/", "base"), ("/", "base", "jail")]:
            fs.nodes[loc] = ("dir",)
        F.install(e, fs, "/base/jail")
        entries, layout = RC.build(e, pattern, folders, opts, sym, names=names)
        try:
            z, fp, w = X.setup_read(e, entries, layout, consume="all-at-once")
        except ModelRaise as ex:
            return dict(exc="open:" + ex.name)
        targets, chosen = [], set()
        for i, en in enumerate(entries):
            if e.branch(sel[i]):
                targets.append(en["name"])
                chosen.add(i)
        e.class_models[("py7zr.helpers", "ArchiveTimestamp")] = lambda e_, x: TS(e_.models._int(e_, x))
        try:
            e.method(z, "extract", F.FakePath(fs, "/base/jail", "/base/jail"), targets, recursive)
        except ModelRaise as ex:
            return dict(exc=ex.name + str(ex.eargs)[:80], targets=targets)
        finally:
            e.class_models[("py7zr.helpers", "ArchiveTimestamp")] = lambda e_, x: e_.models._int(e_, x)
        if recursive:
            for i in list(chosen):
                for j, en in enumerate(entries):
                    if en["name"].startswith(entries[i]["name"] + "/"):
                        chosen.add(j)
        return dict(fs=fs, entries=entries, chosen=chosen, targets=targets, world=w)

    def post(o):
        if "exc" in o:
            return False
        fs, entries, chosen, w = o["fs"], o["entries"], o["chosen"], o["world"]
        jail = ("/", "base", "jail")
        want = {}
        for i in sorted(chosen):
            parts = tuple(entries[i]["name"].split("/"))
            want[jail + parts] = "dir" if entries[i]["kind"] == "d" else "file"
            for k in range(1, len(parts)):
                want.setdefault(jail + parts[:k], "dir")
        got = {loc: v[0] for loc, v in fs.nodes.items() if len(loc) > 3 and loc[:3] == jail}
        c = [got == want]
        # contents: a selected data member holds exactly its byte range
        for i in sorted(chosen):
            if entries[i]["kind"] == "f":
                node = fs.nodes.get(jail + tuple(entries[i]["name"].split("/")))
                if node is None or node[0] != "file" or node[1] is None:
                    return c + [False]
                fi_, off, size = w.member_range[i]
                total = 0
                for ch in node[1].chunks:
                    c.append(ch.folder == fi_)
                    total = eng.binop(ast.Add(), total, ch.n)
                c.append(eng.compare(ast.Eq(), total, size))
        c.append(all(loc[:3] == jail for (op, loc) in fs.effects))
        return c

    inputs = RC.inputs_of(sym, pattern, folders)
    inputs.update({"sel%d" % i: s for i, s in enumerate(sel)})
    decide(eng, harness, post, inputs, r, describe=lambda o: o.get("exc") or "T=%s -> %d nodes" % (o["targets"], len(o["fs"].nodes) - 3))

    def rp(w_):
        return dict(module="vf.props.c09", func="replay_to_path", kwargs=dict(
            pattern=pattern, folders=folders, opts=opts, targets=[names[i] for i in range(n) if w_.get("sel%d" % i)], recursive=recursive,
            witness={k: int(v) for k, v in w_.items() if isinstance(v, int) and not isinstance(v, bool)}))

    _cex(r, "selective_to_path", rp, signature=lambda w_: c06._sig("selective_to_path", pattern, folders, opts))
    return r


def replay_to_path(pattern, folders, opts, targets, recursive, witness):
    import io
    import os
    import shutil
    import tempfile

    import py7zr

    names = c06.tree_names(pattern)
    img, entries, datas = c06.concrete_case(pattern, folders, opts, witness, names=names)
    d = tempfile.mkdtemp(prefix="vf_c09p_")
    try:
        try:
            py7zr.SevenZipFile(io.BytesIO(img)).extract(path=d, targets=list(targets), recursive=recursive)
        except Exception as e:  # noqa
            return True, "extract(%s) to a directory raised %r" % (targets, e)
        want = {}
        di = 0
        for en in entries:
            sel_ = en["name"] in targets or (recursive and any(en["name"].startswith(t + "/") for t in targets))
            if sel_:
                parts = en["name"].split("/")
                want[en["name"]] = "dir" if en["kind"] == "d" else datas[di] if en["kind"] == "f" else b""
                for k in range(1, len(parts)):
                    want.setdefault("/".join(parts[:k]), "dir")
            if en["kind"] in "fl":
                di += 1
        got = {}
        for root, dirs, files in os.walk(d):
            for x in dirs:
                got[os.path.relpath(os.path.join(root, x), d)] = "dir"
            for x in files:
                got[os.path.relpath(os.path.join(root, x), d)] = open(os.path.join(root, x), "rb").read()
        return got != want, "extract(%s, recursive=%s) into an empty directory created %s, expected %s" % (
            targets, recursive, sorted(got), sorted(want))
    finally:
        shutil.rmtree(d, ignore_errors=True)


def replay(pattern, folders, opts, targets, recursive, as_set, witness):
    """real library on the concrete counterpart: extract(T) must equal the restriction of extractall"""
    import io

    import py7zr
    from py7zr.io import BytesIOFactory

    img, entries, datas = c06.concrete_case(pattern, folders, opts, witness, names=opts.get("names"))
    try:
        full = BytesIOFactory(10 ** 6)
        py7zr.SevenZipFile(io.BytesIO(img)).extractall(factory=full)
        allp = {k: v.read() for k, v in full.products.items()}
        # the reference view guards against extractall itself being wrong
        di, expect = 0, {}
        for en in entries:
            if en["kind"] in "fl":
                expect[en["name"]] = datas[di]
                di += 1
            elif en["kind"] == "e":
                expect[en["name"]] = b""
        part = BytesIOFactory(10 ** 6)
        t = set(targets) if as_set else list(targets)
        py7zr.SevenZipFile(io.BytesIO(img)).extract(targets=t, recursive=recursive, factory=part)
        got = {k: v.read() for k, v in part.products.items()}
    except Exception as ex:  # noqa
        return True, "raised %r" % (ex,)
    stripped = [x[:-1] if x.endswith("/") else x for x in targets]
    want = {}
    for k, v in expect.items():
        if k in stripped or (recursive and any(k.startswith(s + "/") for s in stripped)):
            want[k] = v
    if got != want:
        return True, "extract(%s, recursive=%s) delivered %s; restriction of the archive is %s" % (
            targets, recursive, {k: len(v) for k, v in got.items()}, {k: len(v) for k, v in want.items()})
    return False, "agrees"


def units(tier):
    M = "vf.props.c09"
    shapes = [("ff", [2], {}), ("ff", [1, 1], {}), ("fdf", [2], {}), ("dff", [1, 1], {}), ("fef", [1, 1], {"emptyfile_vector": True}),
              ("fef", [2], {})]   # an empty FILE (not a directory) in the middle of a solid block
    if tier == "thorough":
        shapes += [("fff", [2, 1], {}), ("fff", [1, 2], {}), ("fdff", [2, 1], {}), ("fdf", [1, 1], {}), ("ffdf", [2, 1], {}),
                   ("ffef", [3], {}), ("feff", [1, 2], {})]
    else:
        shapes += [("fdff", [2, 1], {})]
    shapes += [("fdf", [1, 0, 1], {})]   # a folder without members between two others
    shapes += [("flf", [3], {})]   # a symbolic-link member in the middle of a solid block (unselected: decoded and discarded)
    # a directory whose name is a string prefix of its siblings' names: "beneath a named directory" is not "starts with its name"
    shapes += [("dfff", [3], {"names": ["dir", "dir2.bin", "dir/b.bin", "dirfile"]})]
    us = []
    for (p, f, o) in shapes:
        for rec in (False, True):
            as_set = rec  # list for the exact-match mode, set for the recursive mode (both container kinds covered)
            us.append(Unit("selective[%s,recursive=%s,%s]" % (RC.shape_name(p, f, o), rec, "set" if as_set else "list"), M,
                           "selective", dict(pattern=p, folders=f, opts=o, recursive=rec, as_set=as_set, extras=rec,
                                             unroll=1 if tier == "quick" else 2), 3000))
    # recursive=None is a legal value of the Optional[bool] parameter: it selects like False
    us.append(Unit("selective[ff/2,recursive=None,list]", M, "selective", dict(pattern="ff", folders=[2], opts={}, recursive=None,
                                                                                as_set=False, extras=False, unroll=1), 3000))
    # to a directory (filesystem model): nothing but the selected members and the parent directories they need
    for (p, f, o) in [("fdf", [2], {}), ("fdff", [2, 1], {})] + ([("dff", [1, 1], {}), ("dfef", [2], {})] if tier == "thorough" else []):
        for rec in (False, True):
            us.append(Unit("to_path[%s,recursive=%s]" % (RC.shape_name(p, f, o), rec), M, "selective_to_path",
                           dict(pattern=p, folders=f, opts=o, recursive=rec), 3000))
    return us
