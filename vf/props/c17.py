"""C17 – header values survive storage across their whole legal range (lemma layer L0)."""
from __future__ import annotations

import ast
import io
import random

import z3

from vf.common import CEX, HOLDS, ObResult, Unit
from vf.pysym.engine import Engine
from vf.pysym.harness import brief, conj, decide, model_value
from vf.pysym.values import ModelRaise, SBytes, SFile, SObj, SStr

AI = "py7zr.archiveinfo"

ASSUMPTIONS = [
    "io.BytesIO / struct.pack / struct.unpack / int.to_bytes / int.from_bytes / str.encode('utf-16LE') / "
    "bytes.decode('utf-16LE') are replaced by models inside the interpreter; each model is validated against "
    "the real callee on concrete vectors at the start of the run (translator validation)",
    "ArchiveTimestamp(x) is modelled as the integer x (it is an int subclass without own state)",
]


# ---------------------------------------------------------------------------------------- helpers
def spec_decode(eng, items):
    """NUMBER decoder written from 7zFormat.txt (ReadNumber): returns (value, bytes consumed)"""
    first = items[0]
    mask = 0x80
    value = 0
    for i in range(8):
        if eng.branch(eng.compare(ast.Eq(), eng.binop(ast.BitAnd(), first, mask), 0)):
            high = eng.binop(ast.BitAnd(), first, mask - 1)
            value = eng.binop(ast.Add(), value, eng.binop(ast.LShift(), high, 8 * i))
            return value, i + 1
        value = eng.binop(ast.BitOr(), value, eng.binop(ast.LShift(), items[1 + i], 8 * i))
        mask >>= 1
    return value, 9


def spec_decode_concrete(b):
    first, mask, value = b[0], 0x80, 0
    for i in range(8):
        if first & mask == 0:
            return value + ((first & (mask - 1)) << (8 * i)), i + 1
        value |= b[1 + i] << (8 * i)
        mask >>= 1
    return value, 9


NUMBER_VECTORS = [1, 127, 128, 441, 65535, 16777087, 234889472, 4294967295, 545766266495, 5124095575370701,
                  14921046061426453453]  # tests/test_unit.py


def _validate_number(eng):
    """translator validation: interpreter in concrete mode vs the natively executed real function"""
    import py7zr.archiveinfo as ai

    rnd = random.Random(1)
    vals = NUMBER_VECTORS + [0, 2 ** 64 - 1] + [rnd.getrandbits(rnd.randint(1, 64)) for _ in range(40)]
    n = 0
    for v in vals:
        f = SFile()
        real = io.BytesIO()
        try:
            eng.call(AI, "write_uint64", f, v)
            mine = None
        except ModelRaise as ex:
            mine = ex.name
        try:
            ai.write_uint64(real, v)
            theirs = None
        except Exception as ex:  # noqa
            theirs = type(ex).__name__
        # the interpreter and the natively executed function must agree - also on raising (what the function *should*
        # do is the obligation's business, not the validation's)
        assert mine == theirs, ("write_uint64 raises", v, mine, theirs)
        if mine is not None:
            n += 1
            continue
        assert bytes(f.items) == real.getvalue(), ("write_uint64", v)
        f.pos = 0
        assert eng.call(AI, "read_uint64", f) == ai.read_uint64(io.BytesIO(real.getvalue())) == v
        n += 2
    return n


# ------------------------------------------------------------------------------------ obligations
def number_roundtrip():
    r = ObResult(bounds="value symbolic over the whole range 0..2^64-1 (BV80 with magnitude tracking)")
    eng = Engine([AI], intmode="bv")
    r.validated = _validate_number(eng)
    v = eng.sym_int("v", 64)

    def harness(e):
        e.assume(e.range_cond(v, 64))
        f = SFile()
        e.call(AI, "write_uint64", f, v)
        n = len(f.items)
        enc = list(f.items)
        f.pos = 0
        out = e.call(AI, "read_uint64", f)
        sv, sn = spec_decode(e, enc + [0] * (9 - n))
        return dict(n=n, out=out, pos=f.pos, sv=sv, sn=sn, enc=enc)

    def post(o):
        return [1 <= o["n"] <= 9, e_eq(eng, o["out"], v), o["pos"] == o["n"], e_eq(eng, o["sv"], v), o["sn"] == o["n"]]

    decide(eng, harness, post, {"v": v}, r, describe=lambda o: "encoded in %d bytes" % o["n"])
    _cex(r, "number_roundtrip", lambda w: dict(module="vf.props.c17", func="replay_number", kwargs={"v": w["v"]}))
    return r


def e_eq(eng, a, b):
    return eng.compare(ast.Eq(), a, b)


def number_decode():
    r = ObResult(bounds="every byte string of 9 bytes (all 2^72 values symbolic): read_uint64 vs the spec decoder")
    eng = Engine([AI], intmode="bv")
    r.validated = _validate_number(eng)
    bs = [eng.sym_int("b%d" % i, 8) for i in range(9)]

    def harness(e):
        for b in bs:
            e.assume(e.range_cond(b, 8))
        f = SFile(bs)
        try:
            out = e.call(AI, "read_uint64", f)
        except ModelRaise as ex:
            return dict(exc=ex.name)
        sv, sn = spec_decode(e, bs)
        return dict(out=out, pos=f.pos, sv=sv, sn=sn)

    def post(o):
        if "exc" in o:
            return False
        return [e_eq(eng, o["out"], o["sv"]), o["pos"] == o["sn"]]

    decide(eng, harness, post, {"b%d" % i: b for i, b in enumerate(bs)}, r)
    _cex(r, "number_decode", lambda w: dict(module="vf.props.c17", func="replay_decode",
                                           kwargs={"data": bytes(w["b%d" % i] for i in range(9)).hex()}))
    return r


def booleans(lo, hi):
    r = ObResult(bounds="boolean vectors of every length %d..%d, contents symbolic, both all_defined modes "
                        "(guarded if-merging: one path per length/mode and shortcut)" % (lo, hi))
    import py7zr.archiveinfo as ai

    for n in range(lo, hi + 1):
        for alldef in (False, True):
            eng = Engine([AI], intmode="bv", merge_ifs=True)
            if n == lo and not alldef:
                # translator validation on the unit-test vectors
                for vec, ad in [([True, False, True, True, False, True, False, False, True], False),
                                ([True] * 10, False), ([True] * 17, False), ([True] * 9, True), ([False, True], True)]:
                    f = SFile()
                    eng.call(AI, "write_boolean", f, list(vec), ad)
                    real = io.BytesIO()
                    ai.write_boolean(real, vec, ad)
                    assert bytes(f.items) == real.getvalue()
                    f.pos = 0
                    assert eng.call(AI, "read_boolean", f, len(vec), ad) == ai.read_boolean(io.BytesIO(real.getvalue()), len(vec), ad)
                    r.validated += 2
            bs = [z3.Bool("x%d" % i) for i in range(n)]

            def harness(e):
                f = SFile()
                e.call(AI, "write_boolean", f, list(bs), alldef)
                nbytes = len(f.items)
                f.pos = 0
                out = e.call(AI, "read_boolean", f, n, alldef)
                return dict(nbytes=nbytes, out=out, pos=f.pos)

            def post(o):
                c = [o["pos"] == o["nbytes"], len(o["out"]) == n, o["nbytes"] <= (n + 7) // 8 + (1 if alldef else 0)]
                for x, b in zip(o["out"], bs):
                    c.append((x if z3.is_bool(x) else z3.BoolVal(bool(x))) == b)
                return c

            decide(eng, harness, post, {"x%d" % i: b for i, b in enumerate(bs)}, r,
                   describe=lambda o: "%d bytes" % o["nbytes"])
            if r.verdict != HOLDS:
                _cex(r, "booleans", lambda w, n=n, alldef=alldef: dict(
                    module="vf.props.c17", func="replay_boolean",
                    kwargs={"vec": [bool(w["x%d" % i]) for i in range(n)], "alldef": alldef}))
                return r
    return r


def utf16(n):
    r = ObResult(bounds="names of exactly %d code points, each symbolic over U+0001..U+10FFFF minus surrogates" % n)
    eng = Engine([AI], intmode="bv")
    import py7zr.archiveinfo as ai

    for s in ["test", "", "aéあ\U0001F600z", "\u0001￿"]:
        f = SFile()
        eng.call(AI, "write_utf16", f, SStr([ord(c) for c in s]))
        real = io.BytesIO()
        ai.write_utf16(real, s)
        assert bytes(f.items) == real.getvalue()
        f.pos = 0
        got = eng.call(AI, "read_utf16", f)
        assert (got if isinstance(got, str) else "".join(map(chr, got.cps))) == ai.read_utf16(io.BytesIO(real.getvalue())) == s
        r.validated += 2
    cps = [eng.sym_int("c%d" % i, 21) for i in range(n)]

    def harness(e):
        for c in cps:
            e.assume(z3.And(c >= 1, c <= 0x10FFFF, z3.Or(c < 0xD800, c > 0xDFFF)))
        f = SFile()
        e.call(AI, "write_utf16", f, SStr(cps))
        nbytes = len(f.items)
        f.items.extend([0x41, 0x00])  # following data must not be consumed
        f.pos = 0
        try:
            out = e.call(AI, "read_utf16", f)
        except ModelRaise as ex:
            return dict(exc=ex.name)
        return dict(out=out, pos=f.pos, nbytes=nbytes)

    def post(o):
        if "exc" in o:
            return False
        out = o["out"]
        got = [ord(c) for c in out] if isinstance(out, str) else out.cps
        if len(got) != n:
            return False
        return [o["pos"] == o["nbytes"]] + [e_eq(eng, a, b) for a, b in zip(got, cps)]

    decide(eng, harness, post, {"c%d" % i: c for i, c in enumerate(cps)}, r)
    _cex(r, "utf16", lambda w: dict(module="vf.props.c17", func="replay_utf16",
                                    kwargs={"cps": [w["c%d" % i] for i in range(n)]}))
    return r


def fixed_lists(n):
    r = ObResult(bounds="UINT32 / real UINT64 / CRC list of %d entries, every value symbolic over its full width" % n)
    eng = Engine([AI], intmode="bv")
    cs = [eng.sym_int("crc%d" % i, 32) for i in range(n)]
    q = eng.sym_int("q", 64)

    def harness(e):
        for c in cs:
            e.assume(e.range_cond(c, 32))
        e.assume(e.range_cond(q, 64))
        f = SFile()
        e.call(AI, "write_crcs", f, list(cs))
        e.call(AI, "write_real_uint64", f, q)
        total = len(f.items)
        f.pos = 0
        out = e.call(AI, "read_crcs", f, n)
        qq, raw = e.call(AI, "read_real_uint64", f)
        return dict(out=out, q=qq, pos=f.pos, total=total)

    def post(o):
        return [o["pos"] == o["total"], o["total"] == 4 * n + 8, len(o["out"]) == n, e_eq(eng, o["q"], q)] + [
            e_eq(eng, a, b) for a, b in zip(o["out"], cs)]

    decide(eng, harness, post, dict({"crc%d" % i: c for i, c in enumerate(cs)}, q=q), r)
    _cex(r, "fixed_lists", lambda w: dict(module="vf.props.c17", func="replay_crcs",
                                          kwargs={"crcs": [w["crc%d" % i] for i in range(n)], "q": w["q"]}))
    return r


def _files_info(eng):
    fi = eng.new(eng.cls(AI, "FilesInfo"))
    return fi


def times_attrs(n, kind):
    """FilesInfo._write_times/_read_times (kind='times') or _write_attributes/_read_attributes ('attrs') for n files;
    which entries are defined is symbolic (forking), the values are symbolic over their full width.
    Property-section framing is checked too: the declared size equals the number of bytes that follow."""
    r = ObResult(bounds="%d files, every subset of defined entries (symbolic flags), values symbolic over the full %s"
                        % (n, "64 bits" if kind == "times" else "32 bits"))
    eng = Engine([AI], intmode="bv", unroll=max(16, n + 2))
    ds = [z3.Bool("d%d" % i) for i in range(n)]
    bits = 64 if kind == "times" else 32
    vs = [eng.sym_int("v%d" % i, bits) for i in range(n)]
    key = "lastwritetime" if kind == "times" else "attributes"
    propid = None

    def harness(e):
        for v in vs:
            e.assume(e.range_cond(v, bits))
        fi = _files_info(e)
        files = []
        for i in range(n):
            d = {"emptystream": False}
            if e.branch(ds[i]):
                d[key] = vs[i]
            elif i % 2:
                d[key] = None  # undefined either as None or as a missing key
            files.append(d)
        fi.attrs["files"] = files
        f = SFile()
        if kind == "times":
            from py7zr.properties import PROPERTY

            e.method(fi, "_write_times", f, SBytes(list(PROPERTY.LAST_WRITE_TIME)), key)
        else:
            e.method(fi, "_write_attributes", f)
        raw = list(f.items)
        # parse the framing the way FilesInfo._read does: id, NUMBER size, then exactly `size` bytes
        f.pos = 1
        size = e.call(AI, "read_uint64", f)
        start = f.pos
        rest = len(raw) - start
        fi2 = _files_info(e)
        fi2.attrs["files"] = [{"emptystream": False} for _ in range(n)]
        try:
            if kind == "times":
                e.method(fi2, "_read_times", f, key)
            else:
                defined = e.call(AI, "read_boolean", f, n, True)
                ext = f.items[f.pos]
                f.pos += 1
                e.method(fi2, "_read_attributes", f, defined)
        except ModelRaise as ex:
            return dict(exc=ex.name, size=size, rest=rest)
        return dict(size=size, rest=rest, pos=f.pos, total=len(raw), got=[x.get(key) for x in fi2.attrs["files"]],
                    defined=[bool(key in x and x[key] is not None) for x in files])

    def post(o):
        if "exc" in o:
            return False
        c = [e_eq(eng, o["size"], o["rest"]), o["pos"] == o["total"]]
        for g, d, v in zip(o["got"], o["defined"], vs):
            c.append((g is None) == (not d))
            if d and g is not None:
                c.append(e_eq(eng, g, v))
        return c

    inputs = {"d%d" % i: d for i, d in enumerate(ds)}
    inputs.update({"v%d" % i: v for i, v in enumerate(vs)})
    decide(eng, harness, post, inputs, r, describe=lambda o: "declared=%s actual=%s" % (o.get("size"), o.get("rest")))

    def sig(w):
        return dict(module="vf.props.c17", func="replay_times_attrs",
                    kwargs={"kind": kind, "defined": [bool(w["d%d" % i]) for i in range(n)],
                            "values": [w["v%d" % i] for i in range(n)]})

    _cex(r, "times_attrs", sig, signature=lambda w: {
        "obligation": "property_size", "kind": kind,
        "class": "partially_or_un-defined vector" if not all(w["d%d" % i] for i in range(n)) else "all defined"})
    return r


def _cex(r, obligation, mk_replay, signature=None):
    if r.verdict != CEX:
        return
    for w, obs, m in getattr(r, "_bad", []):
        r.cex.append({"witness": w, "signature": (signature(w) if signature else {"obligation": obligation}),
                      "replay": mk_replay(w), "detail": brief(obs)[:400]})


def names_section(lengths):
    """FilesInfo._write_names for names of symbolic code points: the declared property size equals the bytes that follow,
    and _read_name gets every name back"""
    r = ObResult(bounds="%d file(s) with names of %s code points, each symbolic over U+0001..U+10FFFF minus surrogates and "
                        "backslash; the Names property as _write_names emits it" % (len(lengths), lengths))
    eng = Engine([AI], intmode="bv")
    cps = [[eng.sym_int("n%dc%d" % (i, j), 21) for j in range(n)] for i, n in enumerate(lengths)]

    def harness(e):
        for row in cps:
            for c in row:
                e.assume(z3.And(c >= 1, c <= 0x10FFFF, z3.Or(c < 0xD800, c > 0xDFFF), c != 0x5C))
        fi = SObj(e.cls(AI, "FilesInfo"))
        fi.attrs["files"] = [{"filename": SStr(row)} for row in cps]
        f = SFile()
        e.method(fi, "_write_names", f)
        items = list(f.items)
        if not items or items[0] != 0x11:
            return dict(bad="property id")
        g = SFile(items)
        g.pos = 1
        size = e.call(AI, "read_uint64", g)
        start = g.pos
        ext = g.items[g.pos] if g.pos < len(g.items) else None
        g.pos += 1
        rd = SObj(e.cls(AI, "FilesInfo"))
        rd.attrs["files"] = [{} for _ in cps]
        try:
            e.method(rd, "_read_name", g)
        except ModelRaise as ex:
            return dict(bad="read raised " + ex.name)
        return dict(size=size, follows=len(items) - start, consumed=g.pos - start, ext=ext, names=[x.get("filename") for x in rd.attrs["files"]])

    def post(o):
        if "bad" in o:
            return False
        c = [e_eq(eng, o["size"], o["follows"]), o["consumed"] == o["follows"], o["ext"] == 0]
        for got, want in zip(o["names"], cps):
            g = [ord(ch) for ch in got] if isinstance(got, str) else got.cps
            if len(g) != len(want):
                return False
            c += [e_eq(eng, a, b) for a, b in zip(g, want)]
        return c

    decide(eng, harness, post, {"n%dc%d" % (i, j): c for i, row in enumerate(cps) for j, c in enumerate(row)}, r,
           describe=lambda o: o.get("bad") or "size field %s, %d bytes follow" % (brief(o["size"]), o["follows"]))
    _cex(r, "names_section", lambda w: dict(module="vf.props.c17", func="replay_names", kwargs=dict(
        names=[[int(w["n%dc%d" % (i, j)]) for j in range(n)] for i, n in enumerate(lengths)])))
    return r


# ---------------------------------------------------------------------------------------- replays
def _legal_input(fn):
    """the replays below feed the real primitives inputs from their documented domain: an exception IS the violation"""
    import functools

    @functools.wraps(fn)
    def wrapper(*a, **k):
        try:
            return fn(*a, **k)
        except Exception as e:  # noqa
            tb = e.__traceback__
            while tb.tb_next is not None:
                tb = tb.tb_next
            if "/py7zr/" not in tb.tb_frame.f_code.co_filename:
                raise   # a slip of the replay itself, not of the library
            return True, "the real function raised %r on a legal input %r %r" % (e, a, k)

    return wrapper


@_legal_input
def replay_names(names):
    import py7zr.archiveinfo as ai

    strs = ["".join(chr(c) for c in row) for row in names]
    fi = ai.FilesInfo()
    fi.files = [{"filename": x} for x in strs]
    b = io.BytesIO()
    fi._write_names(b)
    raw = b.getvalue()
    f = io.BytesIO(raw)
    f.read(1)
    size = ai.read_uint64(f)
    follows = len(raw) - f.tell()
    return size != follows, "names %r: declared property size %d, %d bytes follow" % (strs, size, follows)


@_legal_input
def replay_number(v):
    import py7zr.archiveinfo as ai

    b = io.BytesIO()
    ai.write_uint64(b, v)
    raw = b.getvalue()
    back = ai.read_uint64(io.BytesIO(raw))
    sv, sn = spec_decode_concrete(raw + bytes(9))
    bad = not (1 <= len(raw) <= 9 and back == v and sv == v and sn == len(raw))
    return bad, "v=%d encoded=%s read=%d spec=(%d,%d)" % (v, raw.hex(), back, sv, sn)


def replay_decode(data):
    import py7zr.archiveinfo as ai

    raw = bytes.fromhex(data)
    f = io.BytesIO(raw)
    try:
        got = ai.read_uint64(f)
    except Exception as e:  # noqa
        return True, "raised %r" % e
    sv, sn = spec_decode_concrete(raw)
    return (got != sv or f.tell() != sn), "bytes=%s read=(%d,%d) spec=(%d,%d)" % (data, got, f.tell(), sv, sn)


@_legal_input
def replay_boolean(vec, alldef):
    import py7zr.archiveinfo as ai

    b = io.BytesIO()
    ai.write_boolean(b, vec, alldef)
    f = io.BytesIO(b.getvalue())
    got = ai.read_boolean(f, len(vec), alldef)
    return (got != vec or f.tell() != len(b.getvalue())), "vec=%s bytes=%s got=%s" % (vec, b.getvalue().hex(), got)


@_legal_input
def replay_utf16(cps):
    import py7zr.archiveinfo as ai

    s = "".join(chr(c) for c in cps)
    b = io.BytesIO()
    ai.write_utf16(b, s)
    f = io.BytesIO(b.getvalue() + b"A\x00")
    try:
        got = ai.read_utf16(f)
    except Exception as e:  # noqa
        return True, "raised %r" % e
    return (got != s or f.tell() != len(b.getvalue())), "%r -> %r" % (s, got)


@_legal_input
def replay_crcs(crcs, q):
    import py7zr.archiveinfo as ai

    b = io.BytesIO()
    ai.write_crcs(b, crcs)
    ai.write_real_uint64(b, q)
    f = io.BytesIO(b.getvalue())
    got = ai.read_crcs(f, len(crcs))
    qq = ai.read_real_uint64(f)[0]
    return (got != crcs or qq != q), "%s %s" % (got, qq)


@_legal_input
def replay_times_attrs(kind, defined, values):
    """through the section reader the archive reader uses: FilesInfo.write -> FilesInfo._read"""
    import py7zr.archiveinfo as ai
    from py7zr.helpers import ArchiveTimestamp

    fi = ai.FilesInfo()
    key = "lastwritetime" if kind == "times" else "attributes"
    other = "attributes" if kind == "times" else "lastwritetime"
    for i, (d, v) in enumerate(zip(defined, values)):
        f = {"emptystream": False, "filename": "f%d" % i, other: (0x20 if other == "attributes" else ArchiveTimestamp(1))}
        if d:
            f[key] = ArchiveTimestamp(v) if kind == "times" else v
        fi.files.append(f)
    b = io.BytesIO()
    try:
        fi.write(b)
    except Exception as e:  # noqa
        return True, "FilesInfo.write raised %r on a legal set of members (defined=%s)" % (e, defined)
    raw = b.getvalue()
    try:
        back = ai.FilesInfo.retrieve(io.BytesIO(raw[1:]))
    except Exception as e:  # noqa
        return True, "FilesInfo.write output not readable by FilesInfo._read: %r (defined=%s)" % (e, defined)
    for f0, f1 in zip(fi.files, back.files):
        if f0.get(key) != f1.get(key):
            return True, "value changed: %r -> %r" % (f0.get(key), f1.get(key))
    return False, "round trip ok"


# ------------------------------------------------------------------------------------------ units
def units(tier):
    M = "vf.props.c17"
    us = [Unit("a.number_roundtrip[0..2^64)", M, "number_roundtrip", {}, 300),
          Unit("b.number_decode[9 bytes]", M, "number_decode", {}, 300)]
    step = 10
    for lo in range(0, 131, step):
        us.append(Unit("c.booleans[%d..%d]" % (lo, min(lo + step - 1, 130)), M, "booleans",
                       {"lo": lo, "hi": min(lo + step - 1, 130)}, 300))
    for n in range(0, 5 if tier == "quick" else 7):
        us.append(Unit("d.utf16[len=%d]" % n, M, "utf16", {"n": n}, 600))
    for ls in ([[1], [2], [1, 1], [0, 2]] if tier == "quick" else [[1], [2], [3], [1, 1], [0, 2], [2, 2], [1, 1, 1]]):
        us.append(Unit("d.names_section%s" % ls, M, "names_section", {"lengths": ls}, 900))
    for n in (0, 1, 3):
        us.append(Unit("e.fixed_lists[n=%d]" % n, M, "fixed_lists", {"n": n}, 300))
    for n in range(1, 6 if tier == "quick" else 10):
        for kind in ("times", "attrs"):
            us.append(Unit("e.%s[n=%d]" % (kind, n), M, "times_attrs", {"n": n, "kind": kind}, 900))
    return us
