"""C08 – append preserves history (header round trip and position arithmetic; payload bytes are outside)."""
from __future__ import annotations

import ast
import io
import zlib

import z3

from vf.common import ObResult, Unit
from vf.harness import extract as X
from vf.harness import readcases as RC
from vf.harness import session as S
from vf.props import c06
from vf.props.c17 import _cex
from vf.pysym import tokens
from vf.pysym.harness import decide
from vf.pysym.models import CrcVal, crc_term, from_bytes
from vf.pysym.values import ModelRaise, SBytes, SFile

REF = "vf.ref7z"
AI, PZ = "py7zr.archiveinfo", "py7zr.py7zr"

ASSUMPTIONS = c06.ASSUMPTIONS + [
    "the base archive is reference-written (any layout of the C06 shape set) and parsed by the real reader; the append "
    "session runs the real _prepare_append / Header.initialize / _writef / Worker.archive / flush_archive / Header.write / "
    "SignatureHeader.write with the codec contract stub of C07; the result is parsed by the independent reference reader",
    "append_open_position: the real SevenZipFile.__init__ runs; _check_7zfile is replaced by its contract (are the six bytes "
    "at the CURRENT position the magic: yes at offset 0 of this valid archive, either answer anywhere else)",
    "append_keeps_ctime: one obligation of its own for the creation-time field (open finding K07)",
]


def mk_engine():
    eng = RC.mk_engine(modules=[REF])
    # little-endian fixed-width read of the reference reader: same model as struct.unpack (keeps byte groups intact)
    eng.overrides[(REF, "rd_fixed")] = lambda e, f, n: _rd_fixed(e, f, n)
    tokens.install(eng, [(AI, "write_uint64", "read_uint64"), (REF, None, "rd_number")])
    # FilesInfo.write asks its (CRC-wrapping) file for the position only to choose the kDummy padding: any alignment
    # class is allowed (over-approximation; exact positions are kept for the underlying archive file)
    cnt = {"n": 0}

    def any_alignment(e, wfile):
        cnt["n"] += 1
        return e.sym_int("align!%d" % cnt["n"], 2)

    eng.overrides[(AI, "WriteWithCrc.tell")] = any_alignment
    X.install_crc(eng)
    st = S.install_codec_stubs(eng, 1)
    S.install_file_info_stub(eng, st)
    return eng, st


def _rd_fixed(e, f, n):
    b = e.models.call_method(e, f, "read", [n], {})
    if len(b) != n:
        raise ModelRaise("FormatError")
    return from_bytes(e, b)


def eq(eng, a, b):
    return eng.compare(ast.Eq(), a, b)


def append_step(pattern, folders, opts, new, focus=None):
    """new: string of member kinds appended in the session ('s' writestr, 'd' directory via write())"""
    n0 = len(pattern)
    r = ObResult(bounds="base layout %s (sizes/CRCs/times/pack sizes symbolic), one append session adding %r (sizes symbolic), "
                        "raw header" % (RC.shape_name(pattern, folders, opts), new))
    eng, st = mk_engine()
    sym = RC.symbols(eng, pattern)
    nsz = [eng.sym_int("newsize%d" % i, 40) for i in range(len(new))]
    new_names = ["new/n%d.bin" % i for i in range(len(new))]

    def harness(e):
        st.pop("compressors", None)
        entries, layout = RC.build(e, pattern, folders, opts, sym)
        for s_ in nsz:
            e.assume(e.range_cond(s_, 40))
        try:
            z, fp, w = X.setup_read(e, entries, layout)
        except ModelRaise as ex:
            return dict(exc="open:" + ex.name)
        z.attrs["mode"] = "a"
        z.attrs["encoded_header_mode"] = False
        n_ops = len(fp.ops)
        try:
            e.method(z, "_prepare_append", None, None)
            for i, k in enumerate(new):
                if k == "s":
                    e.method(z, "_writef", S.StubSource(nsz[i], "n%d" % i), new_names[i])
                elif k == "l":
                    e.method(z, "write", S.StubPath("src/" + new_names[i], "link", 0, "n%d" % i), new_names[i])
                else:
                    e.method(z, "write", S.StubPath("src/" + new_names[i], "dir", 0, "n%d" % i), new_names[i])
            e.method(z, "close")
        except ModelRaise as ex:
            return dict(exc="append:" + ex.name + str(ex.eargs)[:80])
        comps = st.get("compressors", [])
        ops = fp.ops[n_ops:]
        hdr, start, sig = S.header_items(fp)
        o = dict(entries=entries, layout=layout, world=w, ops=ops, hdr=hdr, start=start, sig=sig, comps=comps)
        try:
            o["ref"] = e.call(REF, "rd_header", SFile(hdr))
            o["map"] = e.call(REF, "member_map", o["ref"])
        except ModelRaise as ex:
            o["ref_error"] = "%s%s" % (ex.name, ex.eargs)
        return o

    def post(o):
        if "exc" in o or "ref_error" in o:
            return False
        c = []
        entries, layout, w, ref, mm = o["entries"], o["layout"], o["world"], o["ref"], o["map"]
        files = ref["files"]
        c.append(len(files) == n0 + len(new))
        if len(files) != n0 + len(new):
            return c
        # old members keep everything
        for i, en in enumerate(entries):
            f = files[i]
            c.append(f.get("name_units") == [ord(ch) for ch in en["name"]])
            c.append(f["emptystream"] == (en["kind"] in "ed"))
            if layout.get("emptyfile_vector") and en["kind"] in "ed":
                # the base says which stream-less entries are empty FILES (EmptyFile vector): that survives the append
                c.append(f["emptyfile"] == (en["kind"] == "e"))
            c.append((f.get("attributes") is None) == (en["attributes"] is None))
            if en["attributes"] is not None and f.get("attributes") is not None:
                c.append(eq(eng, f["attributes"], en["attributes"]))
            c.append((f.get("mtime") is None) == (en["mtime"] is None))
            if en["mtime"] is not None and f.get("mtime") is not None:
                c.append(eq(eng, f["mtime"], en["mtime"]))
            if en.get("ctime") is not None and focus == "ctime":
                c.append(f.get("ctime") is not None)
                if f.get("ctime") is not None:
                    c.append(eq(eng, f["ctime"], en["ctime"]))
            if i in w.member_range:
                fi, off, size = w.member_range[i]
                c.append(mm[i]["folder"] == fi)
                c.append(eq(eng, mm[i]["size"], size))
                c.append(eq(eng, mm[i]["offset"], off))
                if en.get("crc_defined", True) is False:
                    c.append(mm[i]["crc"] is None)      # a member without a CRC stays without one
                elif opts.get("crc_at", "sub") != "none" and (opts.get("crc_at") != "folder" or folders[fi] == 1):
                    c.append(mm[i]["crc"] is not None)
                    if mm[i]["crc"] is not None:
                        c.append(eq(eng, mm[i]["crc"], en["crc"]))
            else:
                c.append(mm[i]["folder"] is None)
        # new members follow in order, in the new folder
        comp = o["comps"][-1] if o["comps"] else None
        nf_old = len(folders)
        data_new = [i for i, k in enumerate(new) if k in "sl"]
        for j, k in enumerate(new):
            f = files[n0 + j]
            c.append(f.get("name_units") == [ord(ch) for ch in new_names[j]])
            c.append(f["emptystream"] == (k == "d"))
        for pos, j in enumerate(data_new):
            if comp is None or pos >= len(comp.members):
                return False
            insize, crc = comp.members[pos]
            m = mm[n0 + j]
            c.append(m["folder"] == nf_old)
            c.append(eq(eng, m["size"], insize))
            c.append(m["crc"] is not None)
            if m["crc"] is not None:
                c.append(eq(eng, m["crc"], crc))
        # packed streams: old ones keep offset and size, the new one follows
        st_ = ref["streams"]
        if nf_old or new:
            if st_ is None:
                return False
            packpos = layout.get("packpos", 0)
            c.append(eq(eng, st_["pack"]["packpos"], packpos))
            want = list(layout["packsizes"]) + ([comp.packsize] if comp is not None and comp.flushed else [])
            c.append(len(st_["pack"]["sizes"]) == len(want))
            for a, b in zip(st_["pack"]["sizes"], want):
                c.append(eq(eng, a, b))
        # where the session wrote: nothing inside the old packed area; new data starts right behind it
        new_start = eng.binop(ast.Add(), 32, layout.get("packpos", 0))
        for p in layout["packsizes"]:
            new_start = eng.binop(ast.Add(), new_start, p)
        first_blob = True
        for op in o["ops"]:
            if op[0] != "write":
                continue
            if isinstance(op[2], S.Blob) and first_blob:
                c.append(eq(eng, op[1], new_start))
                first_blob = False
            if not (not hasattr(op[1], "sort") and op[1] < 32):
                c.append(eng.compare(ast.GtE(), op[1], new_start))
        # signature header describes the new header
        sig = o["sig"]
        if len(sig) != 32:
            return False
        c.append(eq(eng, eng.binop(ast.Add(), from_bytes(eng, SBytes(sig[12:20])), 32), o["start"]))
        c.append(eq(eng, from_bytes(eng, SBytes(sig[20:28])), tokens.byte_len(eng, o["hdr"])))
        c.append(eq(eng, from_bytes(eng, SBytes(sig[28:32])), crc_term(eng, CrcVal(o["hdr"]))))
        c.append(eq(eng, from_bytes(eng, SBytes(sig[8:12])), crc_term(eng, CrcVal(sig[12:32]))))
        return c

    inputs = dict(RC.inputs_of(sym, pattern, folders))
    inputs.update({"newsize%d" % i: s_ for i, s_ in enumerate(nsz)})
    decide(eng, harness, post, inputs, r, describe=lambda o: o.get("exc") or o.get("ref_error") or "appended %d, header %d items" % (len(new), len(o["hdr"])))
    _cex(r, "append_step", lambda w_: dict(module="vf.props.c08", func="replay", kwargs=dict(
        pattern=pattern, folders=folders, opts=opts, new=new,
        witness={k: int(v) for k, v in w_.items() if isinstance(v, int)})), signature=lambda w_: _sig(pattern, folders, opts, new))
    if focus:
        # this obligation is about one field only: say so in the signature (and whether it failed for another reason)
        for c_, (w_, obs, m_) in zip(r.cex, getattr(r, "_bad", [])):
            other = "exc" in obs or "ref_error" in obs or "__uncaught__" in obs
            c_["signature"] = {"obligation": "append_step", "focus": focus, "class": "other failure" if other else "creation_time_lost"}
            c_["replay"]["kwargs"]["focus"] = focus
    return r


def append_open_position(pattern, folders, mode="a"):
    """the real SevenZipFile.__init__(fileobj, 'a') on a file object whose position is anywhere: the session either appends
    to the archive that is there (it sees its members) or raises - it never silently starts a new archive over it"""
    from vf.harness.session import LayoutFile, sig_header_items
    from vf.harness import refwriter as W

    r = ObResult(bounds="base layout %s in a file object positioned at a symbolic offset 0..end; SevenZipFile(fileobj, %r)"
                        % (RC.shape_name(pattern, folders, {}), mode))
    eng, st = mk_engine()
    sym = RC.symbols(eng, pattern)
    pos = eng.sym_int("position", 41)

    def harness(e):
        st.pop("compressors", None)
        entries, layout = RC.build(e, pattern, folders, {}, sym)
        world = X.World(e, "live", 3, "arbitrary")
        X.install_read_stubs(e, world)
        items = W.write_header(entries, layout, eng=e)
        data_len = 0
        for p_ in layout.get("packsizes", []):
            data_len = e.binop(ast.Add(), data_len, p_)
        total = tokens.byte_len(e, items)
        fp = LayoutFile(e, sig_header_items(e, data_len, total, items), data_len, items)
        end = e.binop(ast.Add(), e.binop(ast.Add(), 32, data_len), total)
        e.assume(e.compare(ast.LtE(), pos, end))
        fp.seek(e, pos)
        n_ops = len(fp.ops)

        def magic_here(e_, f_):
            # contract of _check_7zfile: are the 6 bytes at the CURRENT position the magic?  yes at offset 0 of this
            # (valid) archive; anywhere else: whatever bytes lie there (either answer), position restored
            if e_.branch(e_.compare(ast.Eq(), f_.tell(e_), 0)):
                return True
            return e_.branch(z3.Bool("bytes_at_position_look_like_magic"))

        e.overrides[(PZ, "SevenZipFile._check_7zfile")] = magic_here
        try:
            z = e.new(e.cls(PZ, "SevenZipFile"), fp, mode)
        except ModelRaise as ex:
            return dict(raised=ex.name)
        writes = [op for op in fp.ops[n_ops:] if op[0] == "write"]
        return dict(nfiles=len(list(e.iterate(z.attrs["files"]))), writes=len(writes))

    def post(o):
        if "raised" in o:
            return None if mode == "a" else False    # append may refuse; a valid archive must open for reading
        return [o["nfiles"] == len(pattern), o["writes"] == 0]   # the old members are seen and nothing was written over them

    decide(eng, harness, post, dict(RC.inputs_of(sym, pattern, folders), position=pos), r,
           describe=lambda o: o.get("raised") or "%d members seen, %d writes at open" % (o["nfiles"], o["writes"]))
    _cex(r, "append_open_position", lambda w_: dict(module="vf.props.c08", func="replay_open_position", kwargs=dict(
        position=int(w_.get("position", 0)), mode=mode)), signature=lambda w_: {"obligation": "append_open_position", "mode": mode})
    return r


def replay_open_position(position, mode="a"):
    import py7zr

    buf = io.BytesIO()
    with py7zr.SevenZipFile(buf, "w", filters=[{"id": py7zr.FILTER_COPY}]) as z:
        z.writestr(b"first member", "a.txt")
    size = len(buf.getvalue())
    buf.seek(min(position, size) if position else buf.tell())
    at = buf.tell()
    if mode == "r":
        try:
            names = py7zr.SevenZipFile(buf).getnames()
        except Exception as e:  # noqa
            return True, "a valid archive in a file object at position %d cannot be opened for reading: %r" % (at, e)
        return names != ["a.txt"], "opened at position %d: %s" % (at, names)
    try:
        with py7zr.SevenZipFile(buf, "a", filters=[{"id": py7zr.FILTER_COPY}]) as z:
            z.writestr(b"second", "b.txt")
    except Exception as e:  # noqa
        return False, "opening for append at position %d raised %r (allowed)" % (at, e)
    buf.seek(0)
    try:
        names = py7zr.SevenZipFile(buf).getnames()
    except Exception as e:  # noqa
        return True, "archive unreadable after an append session opened at position %d: %r" % (at, e)
    return names != ["a.txt", "b.txt"], "append session on a file object at position %d of %d: archive now holds %s" % (at, size, names)


def _sig(pattern, folders, opts, new):
    implicit = bool(folders) and all(n == 1 for n in folders) and opts.get("omit_numunpack", True)
    return dict(c06._sig("append_step", pattern, folders, opts), implicit_substream_sizes=implicit,
                new_data_members=sum(1 for k in new if k == "s"))


def replay(pattern, folders, opts, new, witness, focus=None):
    """append with the real library (Copy codec) to the concrete counterpart, read back with py7zr and check the map"""
    import os
    import tempfile

    import py7zr
    from py7zr.io import BytesIOFactory

    img, entries, datas = c06.concrete_case(pattern, folders, opts, witness)
    expect, di = [], 0
    for en in entries:
        if en["kind"] in "fl":
            expect.append((en["name"], datas[di]))
            di += 1
        elif en["kind"] == "e":
            expect.append((en["name"], b""))
        else:
            expect.append((en["name"], None))
    d = tempfile.mkdtemp(prefix="vf_c08_")
    p = os.path.join(d, "a.7z")
    try:
        open(p, "wb").write(img)
        try:
            with py7zr.SevenZipFile(p, "a", filters=[{"id": py7zr.FILTER_COPY}]) as z:
                z.set_encoded_header_mode(False)   # so that the independent reader can look at the header as well
                for i, k in enumerate(new):
                    name = "new/n%d.bin" % i
                    if k == "s":
                        size = int(witness.get("newsize%d" % i, 0)) % 40
                        data = bytes((200 + i + j) & 0xFF for j in range(size))
                        z.writestr(data, name)
                        expect.append((name, data))
                    elif k == "l":
                        open(os.path.join(d, "tgt%d" % i), "wb").write(b"t")
                        os.symlink("tgt%d" % i, os.path.join(d, "lnk%d" % i))
                        z.write(os.path.join(d, "lnk%d" % i), name)
                        expect.append((name, b"tgt%d" % i))
                    else:
                        sub = os.path.join(d, "dir%d" % i)
                        os.mkdir(sub)
                        z.write(sub, name)
                        expect.append((name, None))
        except Exception as e:  # noqa
            return True, "append session failed: %r" % (e,)
        try:
            z = py7zr.SevenZipFile(p)
            names = z.getnames()
            fac = BytesIOFactory(10 ** 6)
            z.extractall(factory=fac)
            got = {k: v.read() for k, v in fac.products.items()}
        except Exception as e:  # noqa
            return True, "archive unreadable after append: %r" % (e,)
        if names != [n for n, _ in expect]:
            return True, "names after append: %s" % names
        # the independent reader must accept what was written and assign the same sizes / CRCs
        import struct

        from vf import ref7z

        raw = open(p, "rb").read()
        ofs, size, _crc = struct.unpack("<QQL", raw[12:32])
        try:
            h = ref7z.rd_header(io.BytesIO(raw[32 + ofs:32 + ofs + size]))
            mm = ref7z.member_map(h)
        except Exception as e:  # noqa
            return True, "the header written by the append session is rejected by the independent reader: %r" % (e,)
        if focus == "ctime":
            lost = [en["name"] for en, hf in zip(entries, h["files"]) if en.get("ctime") is not None and hf.get("ctime") != en["ctime"]]
            return bool(lost), "creation times of the base archive's members after the append: %s" % (
                ("LOST for %s" % lost) if lost else "kept")
        if opts.get("emptyfile_vector"):
            for en, hf in zip(entries, h["files"]):
                if en["kind"] in "ed" and hf["emptyfile"] != (en["kind"] == "e"):
                    return True, "independent reader: %s was an empty %s in the base archive, after the append its EmptyFile flag is %s" % (
                        en["name"], "file" if en["kind"] == "e" else "directory", hf["emptyfile"])
        for (n, dta), m in zip(expect, mm):
            if dta is not None and (m["size"] != len(dta) or (m["crc"] is not None and m["crc"] != zlib.crc32(dta))):
                return True, "independent reader: member %s has size %s crc %s, expected %d / %d" % (n, m["size"], m["crc"], len(dta), zlib.crc32(dta))
        for n, dta in expect:
            if dta is not None and got.get(n) != dta:
                return True, "member %s changed by/after append: %r" % (n, got.get(n))
        return False, "history preserved"
    finally:
        import shutil

        shutil.rmtree(d, ignore_errors=True)


def units(tier):
    M = "vf.props.c08"
    us = []
    bases = [("f", [1], {}), ("ff", [2], {}), ("ff", [1, 1], {}), ("fdf", [2], {}), ("d", [], {}), ("", [], {}),
             ("ff", [1, 1], {"packpos": True}), ("ffd", [2], {"attrs": "partial"}), ("dff", [1, 1], {"crc_at": "folder"}),
             ("ff", [2], {"times": "none"}), ("fd", [1], {"attrs": "none"}),
             ("fd", [1, 0], {}), ("fdf", [1, 0, 1], {}),
             ("ff", [2], {"crc_at": "none"}), ("fef", [1, 1], {"emptyfile_vector": True}),
             ("ff", [1, 1], {"packcrc": True, "packcrc_defined": [False, True]}), ("fff", [2, 1], {"digests": "partial"})]   # a base without any CRC: after the append the digest vector is partially defined   # a folder without members (what appending a lone directory leaves); above: a foreign base without any mtime / attribute property
    if tier == "thorough":
        bases += [("fff", [2, 1], {"times": "partial"}), ("fed", [1], {"emptyfile_vector": True}), ("fdff", [2, 1], {}),
                  ("fff", [1, 2], {"packcrc": True}), ("ff", [2], {"omit_numunpack": False}),
                  ("ff", [2], {"ncoders": 2}), ("ffd", [2], {"dummy": 3}), ("fff", [1, 1, 1], {"crc_at": "folder"}),
                  ("ff", [1, 1], {"crc_at": "folder", "omit_substreams": True}), ("fef", [2], {"attrs": "none", "times": "none"}),
                  ("lf", [2], {}), ("ff", [2], {"dummy": 200}),
                  ("ff", [1, 1], {"ncoders": 2, "bind_style": "first-is-final", "inter": 7})]
    news = ["s", "ss", "sd", "", "d", "l"] if tier == "quick" else ["s", "ss", "sd", "ds", "sss", "", "d", "l", "sl", "ls"]
    for (p, f, o) in bases:
        for nw in news:
            us.append(Unit("append[%s + %s]" % (RC.shape_name(p, f, o), nw or "nothing"), M, "append_step",
                           dict(pattern=p, folders=f, opts=o, new=nw), 1200))
    for (p, f) in [("f", [1]), ("ff", [1, 1])]:
        us.append(Unit("append_open_position[%s]" % RC.shape_name(p, f, {}), M, "append_open_position", dict(pattern=p, folders=f), 900))
    # metadata py7zr's writer does not carry: creation times of a foreign base (one obligation of its own, open finding K07)
    for nw in (["s"] if tier == "quick" else ["s", "d", ""]):
        us.append(Unit("append_keeps_ctime[f/1 + %s]" % (nw or "nothing"), M, "append_step",
                       dict(pattern="f", folders=[1], opts={"ctime": True}, new=nw, focus="ctime"), 1200))
    return us
