"""C07 – writer conformance: what py7zr's section writers emit is well-formed 7z that an independent reader accepts."""
from __future__ import annotations

import ast
import io
import struct
import zlib

import z3

from vf.common import CEX, HOLDS, ObResult, Unit
from vf.harness import session as S
from vf.props import c17
from vf.pysym import tokens
from vf.pysym.engine import Engine
from vf.pysym.harness import decide
from vf.pysym.models import CrcVal, crc_term
from vf.pysym.values import ModelRaise, SBytes, SFile

AI, PZ, REF = "py7zr.archiveinfo", "py7zr.py7zr", "vf.ref7z"

ASSUMPTIONS = [
    "codec contract stub (vf/harness/session.py StubCompressor) stands for SevenZipCompressor: consumes the whole source, "
    "writes an arbitrary number of packed bytes, accounts packsize/unpacksizes as its interface promises",
    "NUMBER token summary (vf/pysym/tokens.py): a written NUMBER is one token N(v) of length numlen(v) in 1..9; "
    "justified by the C17.a/b obligations on the real codec (lemma L0), which this check re-runs",
    "CRC32 abstraction: one symbol per hashed content, equal symbols <=> equal content (no collisions)",
    "lstat results / link targets of write() sources come from a stub (vf/harness/session.py StubPath); "
    "ArchiveTimestamp.from_now() is an arbitrary 63-bit value",
]


def session_names(n):
    """member names of a session: ASCII, an astral-plane character (surrogate pair in UTF-16), BMP non-ASCII, a space"""
    pool = ["d0/m0.bin", "d1/\U0001F600m1.bin", "d0/\u00e9\u4e2d 2", "d1/m3.bin", "d0/\U00020000.x", "m5"]
    return [pool[i % len(pool)] if i < len(pool) else "d%d/m%d.bin" % (i % 2, i) for i in range(n)]


def u16(name):
    b = name.encode("utf-16LE")
    return [b[i] | (b[i + 1] << 8) for i in range(0, len(b), 2)]


def mk_engine(nstages=1, unroll=16):
    eng = Engine([AI, PZ, "py7zr.helpers", REF], intmode="bv", unroll=unroll)
    tokens.install(eng, [(AI, "write_uint64", "read_uint64"), (REF, None, "rd_number")])
    eng.overrides[("py7zr.helpers", "calculate_crc32")] = eng.models._crc32
    st = S.install_codec_stubs(eng, nstages)
    S.install_file_info_stub(eng, st)
    return eng, st


KINDS = {"s": "writestr member (symbolic size)", "f": "write() of a regular file", "d": "write() of a directory",
         "l": "write() of a symlink"}


def run_session(e, st, pattern, sizes, names, header_mode="raw", mode="w"):
    """one create session through the real public write methods; returns (szf-less) observations"""
    z, fp = S.new_archive(e, mode=mode, header_mode=header_mode)
    for i, k in enumerate(pattern):
        if k == "s":
            e.method(z, "writestr_stub" if False else "_writef", S.StubSource(sizes[i], "m%d" % i), names[i])
        else:
            kind = {"f": "file", "d": "dir", "l": "link"}[k]
            e.method(z, "write", S.StubPath("src/" + names[i], kind, sizes[i], "m%d" % i), names[i])
    header = z.attrs["header"]
    comps = st.get("compressors", [])
    e.method(z, "close")
    return fp, header, comps


def session_header(pattern, nstages=1):
    n = len(pattern)
    r = ObResult(bounds="one create session of %d members, kinds %s (%s), %d coder stage(s); member sizes, packed sizes, "
                        "CRCs and timestamps symbolic (40/32/63 bits); raw header" % (n, pattern, ", ".join(
        "%s=%s" % (k, KINDS[k]) for k in sorted(set(pattern))), nstages))
    eng, st = mk_engine(nstages)
    sizes = [eng.sym_int("size%d" % i, 40) for i in range(n)]
    names = session_names(n)

    def harness(e):
        st.pop("compressors", None)
        for s in sizes:
            e.assume(e.range_cond(s, 40))
        fp, header, comps = run_session(e, st, pattern, sizes, names)
        hdr, start, sig = S.header_items(fp)
        obs = dict(fp=fp, hdr=hdr, start=start, sig=sig, comps=comps)
        try:
            obs["ref"] = e.call(REF, "rd_header", SFile(hdr))
            obs["map"] = e.call(REF, "member_map", obs["ref"])
        except ModelRaise as ex:
            obs["ref_error"] = "%s%s" % (ex.name, ex.eargs)
        return obs

    def post(o):
        if "ref_error" in o:
            return False
        c = []
        ref, fp = o["ref"], o["fp"]
        files = ref["files"]
        c.append(len(files) == n)
        data_idx = [i for i, k in enumerate(pattern) if k in "sfl"]
        comp = o["comps"][0] if o["comps"] else None
        for i, k in enumerate(pattern):
            f = files[i]
            c.append(f.get("name_units") == u16(names[i]))
            c.append(f["emptystream"] == (k == "d"))
            c.append(f.get("attributes") is not None)
            c.append(f.get("mtime") is not None)
        st_ = ref["streams"]
        if data_idx or n:
            if st_ is None:
                return False
            c.append(eq(eng, st_["pack"]["packpos"], 0))
            c.append(len(st_["pack"]["sizes"]) == 1)
            c.append(len(st_["folders"]) == 1)
            if comp is None or len(st_["pack"]["sizes"]) != 1 or len(st_["folders"]) != 1:
                return False
            c.append(eq(eng, st_["pack"]["sizes"][0], comp.packsize))
            fo = st_["folders"][0]
            c.append(len(fo["coders"]) == nstages)
            c.append(len(fo["unpacksizes"]) == nstages)
            for j in range(min(nstages, len(fo["unpacksizes"]))):
                # unpack sizes are stored per coder in coder order (last stage first)
                c.append(eq(eng, fo["unpacksizes"][j], comp._unpacksizes[nstages - 1 - j]))
            c.append(eq(eng, st_["sub"]["counts"][0], len(data_idx)))
            mm = o["map"]
            for pos, i in enumerate(data_idx):
                if pos >= len(comp.members):
                    return False
                insize, crc = comp.members[pos]
                c.append(mm[i]["folder"] == 0)
                c.append(eq(eng, mm[i]["size"], insize))
                c.append(mm[i]["crc"] is not None)
                if mm[i]["crc"] is not None:
                    c.append(eq(eng, mm[i]["crc"], crc))
        # signature header describes the bytes on disk
        sig = o["sig"]
        if len(sig) != 32:
            return False
        nho = e_from(eng, sig[12:20])
        nhs = e_from(eng, sig[20:28])
        nhc = e_from(eng, sig[28:32])
        shc = e_from(eng, sig[8:12])
        c.append(eq(eng, eng.binop(ast.Add(), nho, 32), o["start"]))
        c.append(eq(eng, nhs, tokens.byte_len(eng, o["hdr"])))
        c.append(eq(eng, nhc, crc_term(eng, CrcVal(o["hdr"]))))
        c.append(eq(eng, shc, crc_term(eng, CrcVal(sig[12:32]))))
        # packed data tiles [32, 32+packsize) and the header follows immediately
        pos = 32
        for op in fp.ops:
            if op[0] == "write" and isinstance(op[2], S.Blob):
                c.append(eq(eng, op[1], pos))
                pos = eng.binop(ast.Add(), pos, op[3])
        c.append(eq(eng, o["start"], pos))
        if comp is not None:
            c.append(eq(eng, eng.binop(ast.Sub(), pos, 32), comp.packsize))
        return c

    inputs = {"size%d" % i: s for i, s in enumerate(sizes)}
    decide(eng, harness, post, inputs, r, describe=lambda o: o.get("ref_error") or "header of %d items parsed by ref7z" % len(o["hdr"]))
    c17._cex(r, "session_header", lambda w: dict(module="vf.props.c07", func="replay_session", kwargs={
        "pattern": pattern, "sizes": [min(w["size%d" % i], 70000) for i in range(n)], "names": names}),
             signature=lambda w: {"obligation": "session_header", "pattern": pattern})
    return r


def eq(eng, a, b):
    return eng.compare(ast.Eq(), a, b)


def e_from(eng, items):
    from vf.pysym.models import from_bytes

    return from_bytes(eng, SBytes(items))


def encoded_wrapper(pattern, mode="encoded"):
    """the wrapper py7zr writes around an encoded (or encrypted) header - kEncodedHeader, PackInfo, UnpackInfo - read by the
    reference: it says where the packed header lies, how long it is, and how long the raw header is"""
    n = len(pattern)
    r = ObResult(bounds="create session of kinds %s closed with an %s header; member sizes symbolic" % (pattern or "-", mode))
    eng, st = mk_engine(1)
    sizes = [eng.sym_int("size%d" % i, 40) for i in range(n)]
    names = session_names(n)

    def harness(e):
        st.pop("compressors", None)
        for s_ in sizes:
            e.assume(e.range_cond(s_, 40))
        z, fp = S.new_archive(e, header_mode=mode, password=("pw" if mode == "encrypted" else None))
        for i, k in enumerate(pattern):
            e.method(z, "_writef", S.StubSource(sizes[i], "m%d" % i), names[i])
        e.method(z, "close")
        comps = st.get("compressors", [])
        hdr, start, sig = S.header_items(fp)
        hcomp = comps[-1]
        blob_at = [op[1] for op in fp.ops if op[0] == "write" and isinstance(op[2], S.Blob) and op[2].tag[0] == hcomp.ident][0]
        f = SFile(hdr)
        o = dict(first=(hdr[0] if hdr else None), blob_at=blob_at, packsize=hcomp.packsize,
                 rawlen=tokens.byte_len(e, hcomp.sources[-1]) if getattr(hcomp, "sources", None) else None)
        f.pos = 1
        try:
            o["ref"] = e.call(REF, "rd_streams_info", f)
            o["consumed_all"] = (f.pos == len(hdr))
        except ModelRaise as ex:
            o["ref_error"] = "%s%s" % (ex.name, ex.eargs)
        return o

    def post(o):
        if "ref_error" in o:
            return False
        ref = o["ref"]
        c = [o["first"] == 0x17, o["consumed_all"], ref["pack"] is not None and len(ref["folders"]) == 1]
        if ref["pack"] is None or len(ref["folders"]) != 1:
            return c
        c.append(eq(eng, eng.binop(ast.Add(), 32, ref["pack"]["packpos"]), o["blob_at"]))    # where the packed header lies
        c.append(len(ref["pack"]["sizes"]) == 1 and eq(eng, ref["pack"]["sizes"][0], o["packsize"]))
        fo = ref["folders"][0]
        c.append(len(fo["unpacksizes"]) == len(fo["coders"]))
        if o["rawlen"] is not None and fo["unpacksizes"]:
            c.append(eq(eng, ref7z_size(fo), o["rawlen"]))
        return c     # (that an encrypted header's chain ends in 7zAES is C11.3; the coder ids here are the codec stub's)

    def ref7z_size(fo):
        from vf import ref7z

        return ref7z.folder_unpack_size(fo)

    decide(eng, harness, post, {"size%d" % i: s for i, s in enumerate(sizes)}, r, describe=lambda o: o.get("ref_error") or "wrapper parsed")
    c17._cex(r, "encoded_wrapper", lambda w: dict(module="vf.props.c07", func="replay_wrapper", kwargs=dict(pattern=pattern, mode=mode)),
         signature=lambda w: {"obligation": "encoded_wrapper", "mode": mode})
    return r


def replay_wrapper(pattern, mode):
    import py7zr
    from vf import ref7z

    buf = io.BytesIO()
    z = py7zr.SevenZipFile(buf, "w", filters=[{"id": py7zr.FILTER_COPY}], password=("pw" if mode == "encrypted" else None),
                           header_encryption=(mode == "encrypted"))
    for i, k in enumerate(pattern):
        z.writestr(bytes([65 + i]) * (3 + i), "m%d" % i)
    z.close()
    raw = buf.getvalue()
    ofs, size, crc = struct.unpack("<QQL", raw[12:32])
    hb = raw[32 + ofs:32 + ofs + size]
    if not hb or hb[0] != 0x17:
        return True, "the header is not an encoded header: first byte %r" % hb[:1]
    f = io.BytesIO(hb[1:])
    try:
        st_ = ref7z.rd_streams_info(f)
    except Exception as e:  # noqa
        return True, "the reference rejects the encoded-header wrapper %s: %r" % (hb.hex(), e)
    fo = st_["folders"][0]
    bad = f.tell() != len(hb) - 1 or len(fo["unpacksizes"]) != len(fo["coders"]) or 32 + st_["pack"]["packpos"] + st_["pack"]["sizes"][0] != 32 + ofs
    return bad, "wrapper %s -> %s" % (hb.hex(), st_)


# ---------------------------------------------------------------------------------------- replays
def replay_session(pattern, sizes, names):
    """write the same session with the real library (Copy codec, raw header) and parse it with ref7z natively"""
    import os
    import tempfile

    import py7zr
    from vf import ref7z

    d = tempfile.mkdtemp(prefix="vf_c07_")
    try:
        buf = io.BytesIO()
        z = py7zr.SevenZipFile(buf, "w", filters=[{"id": py7zr.FILTER_COPY}])
        z.set_encoded_header_mode(False)
        expect = []
        for i, k in enumerate(pattern):
            data = bytes((i + j) & 0xFF for j in range(sizes[i]))
            if k == "s":
                z.writestr(data, names[i])
                expect.append((names[i], data))
            else:
                p = os.path.join(d, "src%d" % i)
                if k == "d":
                    os.mkdir(p)
                    expect.append((names[i], None))
                elif k == "l":
                    open(os.path.join(d, "target%d" % i), "wb").write(b"t")   # (py7zr refuses dangling links)
                    os.symlink("target%d" % i, p)
                    expect.append((names[i], b"target%d" % i))
                else:
                    open(p, "wb").write(data)
                    expect.append((names[i], data))
                try:
                    z.write(p, names[i])
                except Exception as e:  # noqa
                    return True, "write() of member %d (%s) of a valid session raised %r" % (i, k, e)
        z.close()
        raw = buf.getvalue()
        ofs, size, crc = struct.unpack("<QQL", raw[12:32])
        if zlib.crc32(raw[12:32]) != struct.unpack("<L", raw[8:12])[0]:
            return True, "start header crc wrong"
        hb = raw[32 + ofs:32 + ofs + size]
        if len(hb) != size or zlib.crc32(hb) != crc or 32 + ofs + size != len(raw):
            return True, "signature header does not describe the bytes on disk"
        try:
            h = ref7z.rd_header(io.BytesIO(hb))
            mm = ref7z.member_map(h)
        except Exception as e:  # noqa
            return True, "reference reader rejects the header: %r" % e
        packed = raw[32:32 + ofs]
        if h["streams"] is not None and sum(h["streams"]["pack"]["sizes"]) != len(packed):
            return True, "pack sizes do not tile the data area"
        for (name, data), f, m in zip(expect, h["files"], mm):
            if ref7z.units_to_str(f["name_units"]) != name:
                return True, "name differs"
            if data is None:
                if not f["emptystream"]:
                    return True, "directory not an empty stream"
                continue
            got = packed[m["offset"]:m["offset"] + m["size"]]  # Copy codec: folder output == packed bytes
            if got != data or (m["crc"] is not None and zlib.crc32(data) != m["crc"]):
                return True, "member %s: content/crc differ (size %d vs %d)" % (name, m["size"], len(data))
        return False, "reference reader recovers all %d members" % len(expect)
    finally:
        import shutil

        shutil.rmtree(d, ignore_errors=True)


# ------------------------------------------------------------------------------------------ units
def units(tier):
    M = "vf.props.c07"
    us = [Unit("L0." + u.name, u.module, u.func, u.kwargs, u.timeout) for u in c17.units("quick")
          if u.name[0] in "abc" or u.name.startswith("d.utf16[len=2]") or u.name.startswith("e.")]
    pats = ["", "s", "d", "ss", "sd", "ds", "fl", "sds", "dsd", "lsf", "sl"]
    if tier == "thorough":
        pats += ["ssss", "sdsd", "dlfs", "ddd", "sfdls"]
    for p in pats:
        us.append(Unit("S.session_header[%s,1 stage]" % (p or "empty"), M, "session_header", {"pattern": p, "nstages": 1}, 900))
    for p in (["ss", "sd"] if tier == "quick" else ["ss", "sd", "sds"]):
        for k in (2, 3):
            us.append(Unit("S.session_header[%s,%d stages]" % (p, k), M, "session_header", {"pattern": p, "nstages": k}, 900))
    for p in ("", "s", "ss"):
        for md in ("encoded", "encrypted"):
            us.append(Unit("W.encoded_wrapper[%s,%s]" % (p or "empty", md), M, "encoded_wrapper", {"pattern": p, "mode": md}, 900))
    for nm in FILTER_LISTS:
        for aes in (False, True):
            us.append(Unit("5.chain_sizes[%s%s]" % (nm, "+AES" if aes else ""), M, "chain_sizes", dict(name=nm, with_aes=aes), 600))
    return us


# --------------------------------------------------- 5. coder chains: construction and size bookkeeping on both sides
FILTER_LISTS = {
    "LZMA2": [{"id": 0x21, "preset": 1}],
    "Delta+LZMA2": [{"id": 0x03, "dist": 4}, {"id": 0x21, "preset": 1}],
    "X86+LZMA2": [{"id": 0x04}, {"id": 0x21, "preset": 1}],
    "LZMA": [{"id": 0x4000000000000001, "preset": 1}],
    "X86+LZMA": [{"id": 0x04}, {"id": 0x4000000000000001, "preset": 1}],
    "BZip2": [{"id": 0x31}],
    "X86+BZip2": [{"id": 0x04}, {"id": 0x31}],
    "Copy": [{"id": 0x33}],
    "Deflate": [{"id": 0x32}],
    "ARM+Deflate": [{"id": 0x07}, {"id": 0x32}],
    "ZStandard": [{"id": 0x35, "level": 3}],
    "PPMd": [{"id": 0x36, "order": 6, "mem": 16}],
}
AES = {"id": 0x06F10701}


def chain_sizes(name, with_aes):
    """SevenZipCompressor.__init__ + .unpacksizes  ->  coders  ->  SevenZipDecompressor.__init__: the size the decompressor
    expects from each of its chain elements is the size that entered the corresponding encoder stage; the chain ends in
    7zAES exactly when asked"""
    from vf.pysym.models import Native

    CP = "py7zr.compressor"
    filters = [dict(f) for f in FILTER_LISTS[name]] + ([dict(AES)] if with_aes else [])
    r = ObResult(bounds="filter list %s%s; per-stage input sizes symbolic (size-preserving filters inside one native lzma chain "
                        "share their stage)" % (name, "+7zAES" if with_aes else ""))
    eng = Engine([CP], intmode="int")
    built = {"enc": [], "dec": []}

    class Enc(Native):
        def __init__(self, kind, arg=None):
            self.kind, self.arg = kind, arg

        def encode_filter_properties(self, e):
            return e.mkbytes(b"\x53\x0f" + bytes(16))

    class Dec(Native):
        def __init__(self, kind, arg=None):
            self.kind, self.arg = kind, arg

    def mk(side, kind):
        def f(e, *a, **k):
            o = (Enc if side == "enc" else Dec)(kind, a)
            built[side].append(o)
            return o
        return f

    import bz2
    import lzma

    for cls_, kind in [("LZMA1Compressor", "lzma-chain"), ("AESCompressor", "aes"), ("CopyCompressor", "copy"), ("DeflateCompressor", "deflate"),
                       ("ZstdCompressor", "zstd"), ("PpmdCompressor", "ppmd"), ("BCJEncoder", "bcj"), ("BcjArmEncoder", "bcj"),
                       ("BrotliCompressor", "brotli"), ("Deflate64Compressor", "deflate64")]:
        eng.class_models[(CP, cls_)] = mk("enc", kind)
    for cls_, kind in [("LZMA1Decompressor", "lzma-chain"), ("AESDecompressor", "aes"), ("CopyDecompressor", "copy"), ("DeflateDecompressor", "deflate"),
                       ("ZstdDecompressor", "zstd"), ("PpmdDecompressor", "ppmd"), ("BCJDecoder", "bcj"), ("BcjArmDecoder", "bcj"),
                       ("BrotliDecompressor", "brotli"), ("Deflate64Decompressor", "deflate64")]:
        eng.class_models[(CP, cls_)] = mk("dec", kind)
    eng.models.reg(bz2.BZ2Compressor, mk("enc", "bz2"))
    eng.models.reg(bz2.BZ2Decompressor, mk("dec", "bz2"))
    eng.models.reg(lzma.LZMADecompressor, mk("dec", "lzma-chain"))
    eng.models.reg(lzma._encode_filter_properties, lambda e, f: e.mkbytes(lzma._encode_filter_properties(f)))
    eng.models.reg(lzma._decode_filter_properties, lambda e, fid, props: lzma._decode_filter_properties(fid, props.tobytes()))
    eng.overrides[(CP, "PpmdCompressor.encode_filter_properties")] = lambda e, cls__, f: e.mkbytes(b"\x06\x00\x00\x01\x00\x00\x00")
    sizes = [eng.sym_int("stage_in%d" % i, 40) for i in range(4)]

    def harness(e):
        built["enc"], built["dec"] = [], []
        try:
            comp = e.new(e.cls(CP, "SevenZipCompressor"), filters, "pw" if with_aes else None)
        except ModelRaise as ex:
            return dict(rejected=ex.name)
        nst = len(comp.attrs["chain"])
        comp.attrs["_unpacksizes"] = list(sizes[:nst])
        ups = e.models.getattr(e, comp, "unpacksizes")
        coders = comp.attrs["coders"]
        try:
            dec = e.new(e.cls(CP, "SevenZipDecompressor"), coders, 1000, ups, None, "pw" if with_aes else None)
        except ModelRaise as ex:
            return dict(dec_exc=ex.name, ncoders=len(coders))
        return dict(enc=list(built["enc"]), dec=list(built["dec"]), nst=nst, ups=ups, coders=coders,
                    dchain=dec.attrs["chain"], dsizes=dec.attrs["_unpacksizes"])

    def post(o):
        if "rejected" in o:
            return None
        if "dec_exc" in o:
            return False       # what the compressor builds must be accepted by the decompressor
        c = [len(o["ups"]) == len(o["coders"]), len(o["coders"]) == len(filters)]
        enc_kinds = [x.kind for x in o["enc"]]
        dec_kinds = [x.kind for x in o["dec"]]
        c.append((enc_kinds[-1] == "aes") == with_aes)                 # the chain ends in the cipher exactly when asked
        # which encoder stage each filter went through: a native lzma chain takes all its (size-preserving) filters at once
        k = len(filters)
        if enc_kinds[0] == "lzma-chain":
            nnative = k - (1 if with_aes else 0)
            stage_of_filter = [0] * nnative + ([1] if with_aes else [])
        else:
            stage_of_filter = list(range(k))
        c.append(len(enc_kinds) == o["nst"] == max(stage_of_filter) + 1)
        # decoder element i is built for coder i (= filter k-1-i), or for a whole native group starting there; it must expect
        # what entered that filter's encoder stage (the decoder may split a native group: LZMA1 + BCJ is decoded in two steps)
        c.append(o["nst"] <= len(o["dchain"]) <= k and len(o["dsizes"]) >= len(o["dchain"]))
        for i in range(min(len(o["dchain"]), len(o["dsizes"]))):
            c.append(eng.compare(ast.Eq(), o["dsizes"][i], sizes[stage_of_filter[k - 1 - i]]))
        c.append((dec_kinds[0] == "aes") == with_aes)                  # decryption comes first when decoding
        if with_aes:
            c.append(o["coders"][0]["method"].tobytes() == b"\x06\xf1\x07\x01")
        return c

    decide(eng, harness, post, {"stage_in%d" % i: s for i, s in enumerate(sizes)}, r,
           describe=lambda o: o.get("rejected") or o.get("dec_exc") or "%d coders, %d stages" % (len(o["coders"]), o["nst"]))
    _cexs = c17._cex
    _cexs(r, "chain_sizes", lambda w: dict(module="vf.props.c07", func="replay_chain", kwargs=dict(name=name, with_aes=with_aes)),
          signature=lambda w: {"obligation": "chain_sizes", "chain": name, "aes": with_aes})
    return r


def replay_chain(name, with_aes):
    """real round trip of that chain through SevenZipCompressor / SevenZipDecompressor"""
    from py7zr.compressor import SevenZipCompressor, SevenZipDecompressor

    filters = [dict(f) for f in FILTER_LISTS[name]] + ([dict(AES)] if with_aes else [])
    data = bytes((i * 7 + (i >> 5)) & 0xFF for i in range(70000))
    try:
        c = SevenZipCompressor(filters=filters, password="pw" if with_aes else None)
    except Exception as e:  # noqa
        return False, "chain rejected by the compressor: %r" % (e,)
    out = io.BytesIO()
    c.compress(io.BytesIO(data), out)
    c.flush(out)
    try:
        d = SevenZipDecompressor(c.coders, c.packsize, c.unpacksizes, None, "pw" if with_aes else None)
        fp = io.BytesIO(out.getvalue())
        got = b""
        for _ in range(200):
            if len(got) >= len(data):
                break
            got += d.decompress(fp, len(data) - len(got))
    except Exception as e:  # noqa
        return True, "chain %s: decompressor fails on what the compressor wrote: %r" % (name, e)
    return got != data, "chain %s%s: %d of %d bytes back" % (name, "+AES" if with_aes else "", len(got), len(data))
