"""C07 – writer conformance: what py7zr's section writers emit is well-formed 7z that an independent reader accepts."""
from __future__ import annotations

import ast
import io
import struct
import zlib

import z3

from vf.common import CEX, HOLDS, ObResult, Unit
from vf.harness import session as S
from vf.props import c17
from vf.pysym import tokens
from vf.pysym.engine import Engine
from vf.pysym.harness import decide
from vf.pysym.models import CrcVal, crc_term
from vf.pysym.values import ModelRaise, SBytes, SFile

AI, PZ, REF = "py7zr.archiveinfo", "py7zr.py7zr", "vf.ref7z"

ASSUMPTIONS = [
    "codec contract stub (vf/harness/session.py StubCompressor) stands for SevenZipCompressor: consumes the whole source, "
    "writes an arbitrary number of packed bytes, accounts packsize/unpacksizes as its interface promises",
    "NUMBER token summary (vf/pysym/tokens.py): a written NUMBER is one token N(v) of length numlen(v) in 1..9; "
    "justified by the C17.a/b obligations on the real codec (lemma L0), which this check re-runs",
    "CRC32 abstraction: one symbol per hashed content, equal symbols <=> equal content (no collisions)",
    "lstat results / link targets of write() sources come from a stub (vf/harness/session.py StubPath); "
    "ArchiveTimestamp.from_now() is an arbitrary 63-bit value",
]


def session_names(n):
    """member names of a session: ASCII, an astral-plane character (surrogate pair in UTF-16), BMP non-ASCII, a space"""
    pool = ["d0/m0.bin", "d1/\U0001F600m1.bin", "d0/\u00e9\u4e2d 2", "d1/m3.bin", "d0/\U00020000.x", "m5"]
    return [pool[i % len(pool)] if i < len(pool) else "d%d/m%d.bin" % (i % 2, i) for i in range(n)]


def u16(name):
    b = name.encode("utf-16LE")
    return [b[i] | (b[i + 1] << 8) for i in range(0, len(b), 2)]


def mk_engine(nstages=1, unroll=16):
    eng = Engine([AI, PZ, "py7zr.helpers", REF], intmode="bv", unroll=unroll)
    tokens.install(eng, [(AI, "write_uint64", "read_uint64"), (REF, None, "rd_number")])
    eng.overrides[("py7zr.helpers", "calculate_crc32")] = eng.models._crc32
    st = S.install_codec_stubs(eng, nstages)
    S.install_file_info_stub(eng, st)
    return eng, st


KINDS = {"s": "writestr member (symbolic size)", "f": "write() of a regular file", "d": "write() of a directory",
         "l": "write() of a symlink"}


def run_session(e, st, pattern, sizes, names, header_mode="raw"):
    """one create session through the real public write methods; returns (szf-less) observations"""
    z, fp = S.new_archive(e, header_mode=header_mode)
    for i, k in enumerate(pattern):
        if k == "s":
            e.method(z, "writestr_stub" if False else "_writef", S.StubSource(sizes[i], "m%d" % i), names[i])
        else:
            kind = {"f": "file", "d": "dir", "l": "link"}[k]
            e.method(z, "write", S.StubPath("src/" + names[i], kind, sizes[i], "m%d" % i), names[i])
    header = z.attrs["header"]
    comps = st.get("compressors", [])
    e.method(z, "close")
    return fp, header, comps


def session_header(pattern, nstages=1):
    n = len(pattern)
    r = ObResult(bounds="one create session of %d members, kinds %s (%s), %d coder stage(s); member sizes, packed sizes, "
                        "CRCs and timestamps symbolic (40/32/63 bits); raw header" % (n, pattern, ", ".join(
        "%s=%s" % (k, KINDS[k]) for k in sorted(set(pattern))), nstages))
    eng, st = mk_engine(nstages)
    sizes = [eng.sym_int("size%d" % i, 40) for i in range(n)]
    names = session_names(n)

    def harness(e):
        st.pop("compressors", None)
        for s in sizes:
            e.assume(e.range_cond(s, 40))
        fp, header, comps = run_session(e, st, pattern, sizes, names)
        hdr, start, sig = S.header_items(fp)
        obs = dict(fp=fp, hdr=hdr, start=start, sig=sig, comps=comps)
        try:
            obs["ref"] = e.call(REF, "rd_header", SFile(hdr))
            obs["map"] = e.call(REF, "member_map", obs["ref"])
        except ModelRaise as ex:
            obs["ref_error"] = "%s%s" % (ex.name, ex.eargs)
        return obs

    def post(o):
        if "ref_error" in o:
            return False
        c = []
        ref, fp = o["ref"], o["fp"]
        files = ref["files"]
        c.append(len(files) == n)
        data_idx = [i for i, k in enumerate(pattern) if k in "sfl"]
        comp = o["comps"][0] if o["comps"] else None
        for i, k in enumerate(pattern):
            f = files[i]
            c.append(f.get("name_units") == u16(names[i]))
            c.append(f["emptystream"] == (k == "d"))
            c.append(f.get("attributes") is not None)
            c.append(f.get("mtime") is not None)
        st_ = ref["streams"]
        if data_idx or n:
            if st_ is None:
                return False
            c.append(eq(eng, st_["pack"]["packpos"], 0))
            c.append(len(st_["pack"]["sizes"]) == 1)
            c.append(len(st_["folders"]) == 1)
            if comp is None or len(st_["pack"]["sizes"]) != 1 or len(st_["folders"]) != 1:
                return False
            c.append(eq(eng, st_["pack"]["sizes"][0], comp.packsize))
            fo = st_["folders"][0]
            c.append(len(fo["coders"]) == nstages)
            c.append(len(fo["unpacksizes"]) == nstages)
            for j in range(min(nstages, len(fo["unpacksizes"]))):
                # unpack sizes are stored per coder in coder order (last stage first)
                c.append(eq(eng, fo["unpacksizes"][j], comp._unpacksizes[nstages - 1 - j]))
            c.append(eq(eng, st_["sub"]["counts"][0], len(data_idx)))
            mm = o["map"]
            for pos, i in enumerate(data_idx):
                if pos >= len(comp.members):
                    return False
                insize, crc = comp.members[pos]
                c.append(mm[i]["folder"] == 0)
                c.append(eq(eng, mm[i]["size"], insize))
                c.append(mm[i]["crc"] is not None)
                if mm[i]["crc"] is not None:
                    c.append(eq(eng, mm[i]["crc"], crc))
        # signature header describes the bytes on disk
        sig = o["sig"]
        if len(sig) != 32:
            return False
        nho = e_from(eng, sig[12:20])
        nhs = e_from(eng, sig[20:28])
        nhc = e_from(eng, sig[28:32])
        shc = e_from(eng, sig[8:12])
        c.append(eq(eng, eng.binop(ast.Add(), nho, 32), o["start"]))
        c.append(eq(eng, nhs, tokens.byte_len(eng, o["hdr"])))
        c.append(eq(eng, nhc, crc_term(eng, CrcVal(o["hdr"]))))
        c.append(eq(eng, shc, crc_term(eng, CrcVal(sig[12:32]))))
        # packed data tiles [32, 32+packsize) and the header follows immediately
        pos = 32
        for op in fp.ops:
            if op[0] == "write" and isinstance(op[2], S.Blob):
                c.append(eq(eng, op[1], pos))
                pos = eng.binop(ast.Add(), pos, op[3])
        c.append(eq(eng, o["start"], pos))
        if comp is not None:
            c.append(eq(eng, eng.binop(ast.Sub(), pos, 32), comp.packsize))
        return c

    inputs = {"size%d" % i: s for i, s in enumerate(sizes)}
    decide(eng, harness, post, inputs, r, describe=lambda o: o.get("ref_error") or "header of %d items parsed by ref7z" % len(o["hdr"]))
    c17._cex(r, "session_header", lambda w: dict(module="vf.props.c07", func="replay_session", kwargs={
        "pattern": pattern, "sizes": [min(w["size%d" % i], 70000) for i in range(n)], "names": names}),
             signature=lambda w: {"obligation": "session_header", "pattern": pattern})
    return r


def eq(eng, a, b):
    return eng.compare(ast.Eq(), a, b)


def e_from(eng, items):
    from vf.pysym.models import from_bytes

    return from_bytes(eng, SBytes(items))


# ---------------------------------------------------------------------------------------- replays
def replay_session(pattern, sizes, names):
    """write the same session with the real library (Copy codec, raw header) and parse it with ref7z natively"""
    import os
    import tempfile

    import py7zr
    from vf import ref7z

    d = tempfile.mkdtemp(prefix="vf_c07_")
    try:
        buf = io.BytesIO()
        z = py7zr.SevenZipFile(buf, "w", filters=[{"id": py7zr.FILTER_COPY}])
        z.set_encoded_header_mode(False)
        expect = []
        for i, k in enumerate(pattern):
            data = bytes((i + j) & 0xFF for j in range(sizes[i]))
            if k == "s":
                z.writestr(data, names[i])
                expect.append((names[i], data))
            else:
                p = os.path.join(d, "src%d" % i)
                if k == "d":
                    os.mkdir(p)
                    expect.append((names[i], None))
                elif k == "l":
                    os.symlink("target%d" % i, p)
                    expect.append((names[i], b"target%d" % i))
                else:
                    open(p, "wb").write(data)
                    expect.append((names[i], data))
                z.write(p, names[i])
        z.close()
        raw = buf.getvalue()
        ofs, size, crc = struct.unpack("<QQL", raw[12:32])
        if zlib.crc32(raw[12:32]) != struct.unpack("<L", raw[8:12])[0]:
            return True, "start header crc wrong"
        hb = raw[32 + ofs:32 + ofs + size]
        if len(hb) != size or zlib.crc32(hb) != crc or 32 + ofs + size != len(raw):
            return True, "signature header does not describe the bytes on disk"
        try:
            h = ref7z.rd_header(io.BytesIO(hb))
            mm = ref7z.member_map(h)
        except Exception as e:  # noqa
            return True, "reference reader rejects the header: %r" % e
        packed = raw[32:32 + ofs]
        if h["streams"] is not None and sum(h["streams"]["pack"]["sizes"]) != len(packed):
            return True, "pack sizes do not tile the data area"
        for (name, data), f, m in zip(expect, h["files"], mm):
            if ref7z.units_to_str(f["name_units"]) != name:
                return True, "name differs"
            if data is None:
                if not f["emptystream"]:
                    return True, "directory not an empty stream"
                continue
            got = packed[m["offset"]:m["offset"] + m["size"]]  # Copy codec: folder output == packed bytes
            if got != data or (m["crc"] is not None and zlib.crc32(data) != m["crc"]):
                return True, "member %s: content/crc differ (size %d vs %d)" % (name, m["size"], len(data))
        return False, "reference reader recovers all %d members" % len(expect)
    finally:
        import shutil

        shutil.rmtree(d, ignore_errors=True)


# ------------------------------------------------------------------------------------------ units
def units(tier):
    M = "vf.props.c07"
    us = [Unit("L0." + u.name, u.module, u.func, u.kwargs, u.timeout) for u in c17.units("quick")
          if u.name[0] in "abc" or u.name.startswith("d.utf16[len=2]") or u.name.startswith("e.")]
    pats = ["", "s", "d", "ss", "sd", "ds", "fl", "sds", "dsd", "lsf"]
    if tier == "thorough":
        pats += ["ssss", "sdsd", "dlfs", "ddd", "sfdls"]
    for p in pats:
        us.append(Unit("S.session_header[%s,1 stage]" % (p or "empty"), M, "session_header", {"pattern": p, "nstages": 1}, 900))
    for p in (["ss", "sd"] if tier == "quick" else ["ss", "sd", "sds"]):
        for k in (2, 3):
            us.append(Unit("S.session_header[%s,%d stages]" % (p, k), M, "session_header", {"pattern": p, "nstages": k}, 900))
    return us
