"""C04 – damage is detected: no success with different content (relative to the CRC collision-free abstraction)."""
from __future__ import annotations

import ast
import io
import struct
import zlib

import z3

from vf.common import ObResult, Unit
from vf.harness import extract as X
from vf.harness import readcases as RC
from vf.harness import refwriter as W
from vf.harness import session as S
from vf.props import c06
from vf.props.c17 import _cex
from vf.pysym import tokens
from vf.pysym.engine import Engine
from vf.pysym.harness import decide
from vf.pysym.models import CrcVal, Native, crc_term, from_bytes
from vf.pysym.values import ModelRaise, SBytes, SFile

AI, PZ = "py7zr.archiveinfo", "py7zr.py7zr"

ASSUMPTIONS = c06.ASSUMPTIONS + [
    "damage model: the decoded stream of one folder is altered from a symbolic offset d on (what a real decoder makes of "
    "damaged packed data: garbage – or an exception, which is a detected failure anyway); CRC32 collision-free: a byte "
    "range that contains altered bytes has a CRC different from the stored one, an unaltered range has the stored CRC",
    "members stored without a CRC are outside the claim",
    "symlink members extracted to a path: output paths are stub objects registered directly with the worker; "
    "is_path_valid is stubbed to True (subject of C03)",
    "this harness has no filesystem: Worker._is_inside / _destination (physical containment, F29) are stubbed to 'inside' – "
    "the subject of C03.3",
]


def eq(eng, a, b):
    return eng.compare(ast.Eq(), a, b)


# ------------------------------------------------------------------------ 1. signature header
def signature_header():
    r = ObResult(bounds="SignatureHeader._read on all 2^256 images of the 32 header bytes (magic fixed)")
    eng = Engine([AI], intmode="bv")
    eng.overrides[("py7zr.helpers", "calculate_crc32")] = eng.models._crc32
    bs = [eng.sym_int("h%d" % i, 8) for i in range(32)]

    def harness(e):
        for b in bs:
            e.assume(e.range_cond(b, 8))
        f = SFile(bs)
        sh = e.new(e.cls(AI, "SignatureHeader"))
        try:
            e.method(sh, "_read", f)
        except ModelRaise as ex:
            return dict(rejected=ex.name)
        return dict(sh=sh)

    def post(o):
        if "rejected" in o:
            return None
        sh = o["sh"]
        return [eq(eng, from_bytes(eng, SBytes(bs[8:12])), crc_term(eng, CrcVal(bs[12:32]))),
                eq(eng, sh.attrs["nextheaderofs"], from_bytes(eng, SBytes(bs[12:20]))),
                eq(eng, sh.attrs["nextheadersize"], from_bytes(eng, SBytes(bs[20:28]))),
                eq(eng, sh.attrs["nextheadercrc"], from_bytes(eng, SBytes(bs[28:32])))]

    decide(eng, harness, post, {"h%d" % i: b for i, b in enumerate(bs)}, r,
           describe=lambda o: o.get("rejected") or "accepted")
    _cex(r, "signature_header", lambda w: dict(module="vf.props.c04", func="replay_sig", kwargs={
        "data": bytes(w["h%d" % i] for i in range(32)).hex()}), signature=lambda w: {"obligation": "signature_header"})
    return r


def replay_sig(data):
    import py7zr.archiveinfo as ai

    raw = bytes.fromhex(data)
    try:
        sh = ai.SignatureHeader.retrieve(io.BytesIO(raw))
    except Exception as e:  # noqa
        return False, "rejected: %r" % e
    ok = zlib.crc32(raw[12:32]) == struct.unpack("<L", raw[8:12])[0]
    return (not ok), "accepted a start header whose CRC does not cover bytes 12..31" if not ok else "accepted, CRC verifies"


# ------------------------------------------------------------------- 2. next header CRC check
def next_header(pattern, folders, opts):
    r = ObResult(bounds="layout %s; the stored next-header CRC is an arbitrary 32-bit value" % RC.shape_name(pattern, folders, opts))
    eng = RC.mk_engine()
    X.install_crc(eng)
    sym = RC.symbols(eng, pattern)
    nhc = eng.sym_int("stored_nextheadercrc", 32)

    def harness(e):
        entries, layout = RC.build(e, pattern, folders, opts, sym)
        e.assume(e.range_cond(nhc, 32))
        items = W.write_header(entries, layout, eng=e)
        data_len = 0
        for p in layout["packsizes"]:
            data_len = e.binop(ast.Add(), data_len, p)
        total = tokens.byte_len(e, items)
        from vf.pysym.models import to_bytes

        tail = list(to_bytes(e, data_len, 8).items) + list(to_bytes(e, total, 8).items) + list(to_bytes(e, nhc, 4).items)
        sig = list(b"7z\xbc\xaf\x27\x1c\x00\x04") + list(to_bytes(e, crc_term(e, CrcVal(tail)), 4).items) + tail
        fp = S.LayoutFile(e, sig, data_len, items)
        from vf.pysym.values import SObj

        z = SObj(e.cls(PZ, "SevenZipFile"))
        z.attrs.update(fp=fp, mode="r", _filePassed=True, filename=None, password_protected=False, mp=False)
        try:
            e.method(z, "_real_get_contents", None)
        except ModelRaise as ex:
            return dict(rejected=ex.name)
        return dict(items=items)

    def post(o):
        if "rejected" in o:
            return None
        return [eq(eng, nhc, crc_term(eng, CrcVal(o["items"])))]

    decide(eng, harness, post, dict(RC.inputs_of(sym, pattern, folders), stored_nextheadercrc=nhc), r,
           describe=lambda o: o.get("rejected") or "accepted")
    _cex(r, "next_header", lambda w: dict(module="vf.props.c04", func="replay_next_header", kwargs=dict(
        pattern=pattern, folders=folders, opts=opts, witness={k: int(v) for k, v in w.items() if isinstance(v, int)})),
         signature=lambda w: {"obligation": "next_header"})
    return r


def replay_next_header(pattern, folders, opts, witness):
    import py7zr

    img, entries, datas = c06.concrete_case(pattern, folders, opts, witness)
    bad = bytearray(img)
    bad[28:32] = struct.pack("<L", (struct.unpack("<L", img[28:32])[0] ^ 0x5A5A5A5A))
    bad[8:12] = struct.pack("<L", zlib.crc32(bytes(bad[12:32])))
    try:
        py7zr.SevenZipFile(io.BytesIO(bytes(bad))).getnames()
    except Exception as e:  # noqa
        return False, "rejected: %r" % e
    return True, "archive with a wrong next-header CRC was accepted"


# ------------------------------------------------------------ 3. damaged decoded stream vs CRCs
class FakeOutPath(Native):
    """output path object registered directly with the worker (no filesystem)"""

    def __init__(self, world, name):
        self.world, self.name = world, name
        self.links = []

    def get_parent(self, eng):
        return self

    def resolve(self, eng, *a, **k):
        return self

    def mkdir(self, eng, *a, **k):
        return None

    def exists(self, eng):
        return False

    def unlink(self, eng):
        return None

    def touch(self, eng):
        self.world.created.append(X.StubOut(self.name))
        return None

    def joinpath(self, eng, *a):
        return self

    def open(self, eng, mode="wb"):
        o = _Ctx(X.StubOut(self.name))
        self.world.created.append(o.out)
        return o

    def symlink_to(self, eng, target):
        o = X.StubOut(self.name)
        o.chunks = list(target.chunks) if isinstance(target, LinkText) else []
        o.is_link = True
        self.world.created.append(o)
        return None


class _Ctx(Native):
    def __init__(self, out):
        self.out = out

    def __enter__(self, eng):
        return self.out

    def __exit__(self, eng, *a):
        return None


class LinkText(Native):
    """the decoded text of a symlink member (opaque: the chunks it was decoded from)"""

    def __init__(self, chunks):
        self.chunks = chunks


def _install_link_models(eng):
    # this harness has no filesystem (output paths are stubs registered with the worker): whether a path is physically
    # inside the destination is C03's obligation, here every stub path is
    eng.overrides[("py7zr.py7zr", "Worker._is_inside")] = lambda e, *a, **k: True
    eng.overrides[("py7zr.py7zr", "Worker._destination")] = lambda e, *a, **k: "<destination>"
    _install_link_models_rest(eng)


def _install_link_models_rest(eng):
    import pathlib

    from vf.pysym import models

    base_decode = models.call_method

    def path_ctor(e, *a, **k):
        if a and isinstance(a[0], LinkText):
            return a[0]
        return e.wrap_real(pathlib.Path(*a))

    eng.models.reg(pathlib.Path, path_ctor)
    eng.decode_hook = lambda e, b: LinkText(list(b.items)) if any(isinstance(x, X.Chunk) for x in b.items) else NotImplemented
    eng.overrides[("py7zr.helpers", "is_path_valid")] = lambda e, target, parent: True


def damaged_extract(pattern, folders, opts, mode, unroll=1, by_path=False, mp=False):
    """mode: 'extractall' (factory), 'paths' (output path stubs incl. the symlink branch), 'testzip'
    by_path: the archive is opened by name, so multi-folder archives take the thread-parallel branch (run with a
    sequential thread stand-in: one schedule); mp: SevenZipFile(..., mp=True) - workers are processes (stand-in: sequential,
    working on copies of their arguments)"""
    n = len(pattern)
    r = ObResult(bounds="layout %s; one folder's decoded stream damaged from a symbolic offset on; %s; selection symbolic; "
                        "<= %d decoder call(s) per member" % (RC.shape_name(pattern, folders, opts), mode, unroll))
    eng = RC.mk_engine(unroll=unroll)
    _install_link_models(eng)
    sym = RC.symbols(eng, pattern)
    d = eng.sym_int("damage_offset", 41)
    sel = [z3.Bool("sel%d" % i) for i in range(n)]
    nf = max(len(folders), 1)

    def harness_k(e, k):
        entries, layout = RC.build(e, pattern, folders, opts, sym)
        e.assume(e.range_cond(d, 41))
        try:
            z, fp, w = X.setup_read(e, entries, layout, intact=False, consume="all-at-once", name=("arch.7z" if by_path else None), mp=mp)
        except ModelRaise as ex:
            return dict(exc="open:" + ex.name)
        # CRC facts under the damage model (no collisions)
        for i, (fi, off, size) in w.member_range.items():
            end = e.binop(ast.Add(), off, size)
            t = X.crc_of_range(e, fi, off, end)
            hit = z3.And(e.lift(end) > e.lift(d), e.lift(size) > 0) if fi == k else z3.BoolVal(False)
            e.assume(z3.If(hit, e.lift(t) != e.lift(entries[i]["crc"]), e.lift(t) == e.lift(entries[i]["crc"])))
        chosen = set()
        worker = z.attrs["worker"]
        files = list(e.iterate(z.attrs["files"]))
        try:
            if mode == "testzip":
                res = e.method(z, "testzip")
                chosen = set(range(n))
                return dict(world=w, entries=entries, res=res, k=k, chosen=chosen)
            for i, en in enumerate(entries):
                if e.branch(sel[i]):
                    chosen.add(i)
            if mode == "extractall":
                fac = X.StubFactory(w)
                e.method(z, "extract", None, [entries[i]["name"] for i in sorted(chosen)], factory=fac)
            else:
                for i, af in enumerate(files):
                    e.method(worker, "register_filelike", af.attrs["id"], FakeOutPath(w, entries[i]["name"]) if i in chosen else None)
                e.method(worker, "extract", fp, None, False)
        except ModelRaise as ex:
            return dict(exc=ex.name, world=w)
        return dict(world=w, entries=entries, k=k, chosen=chosen)

    total_r = r
    for k in range(nf):
        def harness(e, k=k):
            return harness_k(e, k)

        def post(o, k=k):
            if "exc" in o:
                return None  # detected: an error was raised
            w, entries = o["world"], o["entries"]
            c = []
            if mode == "testzip":
                if o["res"] is not None:
                    return None  # damage reported
                for i, (fi, off, size) in w.member_range.items():
                    if fi == k and opts.get("crc_at", "sub") == "sub":
                        c.append(z3.Not(z3.And(eng.lift(eng.binop(ast.Add(), off, size)) > eng.lift(d), eng.lift(size) > 0)))
                return c
            got = {}
            for o_ in w.created:
                got.setdefault(o_.name, []).append(o_)
            for i in o["chosen"]:
                if i not in w.member_range:
                    continue
                fi, off, size = w.member_range[i]
                if fi != k or opts.get("crc_at", "sub") != "sub":
                    continue
                prods = got.get(entries[i]["name"], [])
                delivered = any(len(p.chunks) > 0 for p in prods)
                if delivered:
                    # success and delivered => the member's range contains no altered byte
                    c.append(z3.Not(z3.And(eng.lift(eng.binop(ast.Add(), off, size)) > eng.lift(d), eng.lift(size) > 0)))
            return c

        inputs = dict(RC.inputs_of(sym, pattern, folders), damage_offset=d)
        inputs.update({"sel%d" % i: s for i, s in enumerate(sel)})
        decide(eng, harness, post, inputs, r, describe=lambda o: o.get("exc") or "no error (folder %d damaged)" % o["k"])
        if r.verdict != "HOLDS":
            break
    r.note = (r.note + " cut_paths=%d" % eng.cut_paths).strip()

    def rp(w_):
        return dict(module="vf.props.c04", func="replay_damage", kwargs=dict(
            pattern=pattern, folders=folders, opts=opts, mode=mode, by_path=by_path, mp=mp,
            selected=[i for i in range(n) if w_.get("sel%d" % i)] if mode != "testzip" else list(range(n)),
            witness={k_: int(v) for k_, v in w_.items() if isinstance(v, int) and not isinstance(v, bool)}))

    def sg(w_):
        chosen = [i for i in range(n) if w_.get("sel%d" % i)]
        return {"obligation": "damaged_extract", "mode": mode, "mp": mp,
                "symlink_member_selected": mode == "paths" and any(pattern[i] == "l" for i in chosen)}

    _cex(r, "damaged_extract", rp, signature=sg)
    return r


def replay_damage(pattern, folders, opts, mode, selected, witness, by_path=False, mp=False):
    """damage every selected data member in turn in the concrete counterpart (Copy codec: flip one payload byte) and
    check that the real library never reports success with different content"""
    import os
    import tempfile

    import py7zr
    from py7zr.io import BytesIOFactory

    witness = dict(witness)
    for i, k in enumerate(pattern):
        if k in "fl" and int(witness.get("size%d" % i, 0)) == 0:
            witness["size%d" % i] = 3 + i
    img, entries, datas = c06.concrete_case(pattern, folders, opts, witness)
    names = [e["name"] for e in entries]
    data_idx = [i for i, k in enumerate(pattern) if k in "fl"]
    pos, offs = 32, {}
    for di, i in enumerate(data_idx):
        offs[i] = pos
        pos += len(datas[di])
    expect = {entries[i]["name"]: datas[di] for di, i in enumerate(data_idx)}
    for i in [x for x in selected if x in offs]:
        if not datas[data_idx.index(i)]:
            continue
        bad = bytearray(img)
        bad[offs[i]] ^= 0x01
        d = tempfile.mkdtemp(prefix="vf_c04_")

        def opened():
            if by_path:
                pth = os.path.join(d, "arch.7z")
                open(pth, "wb").write(bytes(bad))
                return py7zr.SevenZipFile(pth, mp=mp)
            return py7zr.SevenZipFile(io.BytesIO(bytes(bad)))

        try:
            if mode == "testzip":
                res = opened().testzip()
                if res is None:
                    return True, "testzip() certifies an archive whose member %s is damaged" % names[i]
                continue
            if mode == "extractall":
                fac = BytesIOFactory(10 ** 6)
                opened().extract(targets=[names[j] for j in selected], factory=fac)
                got = {k: v.read() for k, v in fac.products.items()}
            else:
                os.mkdir(os.path.join(d, "out"))
                opened().extract(path=os.path.join(d, "out"), targets=[names[j] for j in selected])
                got = {}
                for j in selected:
                    p = os.path.join(d, "out", names[j])
                    if os.path.islink(p):
                        got[names[j]] = os.readlink(p).encode()
                    elif os.path.isfile(p):
                        got[names[j]] = open(p, "rb").read()
            for k_, v in got.items():
                if k_ in expect and v != expect[k_]:
                    return True, "success, but %s was delivered with different content (%r vs %r)" % (k_, v[:20], expect[k_][:20])
        except Exception:  # noqa  an error is a detected failure
            pass
        finally:
            import shutil

            shutil.rmtree(d, ignore_errors=True)
    return False, "every damaged variant was rejected or delivered original bytes"


# ------------------------------------------------------------------- 4. test(): packed CRCs
def packed_test(folders_n, defined):
    r = ObResult(bounds="%d packed streams, CRC defined for %s; packed area altered from a symbolic file offset on; block "
                        "size symbolic (<= 3 blocks per stream)" % (folders_n, defined))
    eng = RC.mk_engine()
    eng.loop_limits[(PZ, "SevenZipFile._read_digest")] = (3, "assume")
    pattern = "f" * folders_n
    folders = [1] * folders_n
    sym = RC.symbols(eng, pattern)
    dp = eng.sym_int("damage_pos", 42)
    bsz = eng.sym_int("block_size", 41)

    def harness(e):
        entries, layout = RC.build(e, pattern, folders, {"packcrc": True}, sym)
        layout["packcrc_defined"] = list(defined)
        e.assume(e.range_cond(dp, 42))
        e.assume(e.compare(ast.GtE(), dp, 32))
        e.assume(e.range_cond(bsz, 41))
        e.assume(e.compare(ast.GtE(), bsz, 1))
        try:
            z, fp, w = X.setup_read(e, entries, layout, intact=False)
        except ModelRaise as ex:
            return dict(exc="open:" + ex.name)
        z.attrs["_block_size"] = bsz
        hit = []
        for j in range(folders_n):
            st = w.pack_start[j]
            en = e.binop(ast.Add(), st, layout["packsizes"][j])
            t = X.crc_of_range(e, "P", st, en)
            h = z3.And(e.lift(en) > e.lift(dp), e.lift(layout["packsizes"][j]) > 0)
            hit.append(h)
            if defined[j]:
                e.assume(z3.If(h, e.lift(t) != e.lift(layout["packcrcs"][j]), e.lift(t) == e.lift(layout["packcrcs"][j])))
        try:
            res = e.method(z, "test")
        except ModelRaise as ex:
            return dict(exc=ex.name)
        return dict(res=res, hit=hit)

    def post(o):
        if "exc" in o or o["res"] is not True:
            return None if "exc" in o or o["res"] is False else [z3.BoolVal(True)]
        return [z3.Not(h) for h, dfn in zip(o["hit"], defined) if dfn]

    inputs = dict(RC.inputs_of(sym, pattern, folders), damage_pos=dp, block_size=bsz)
    decide(eng, harness, post, inputs, r, describe=lambda o: o.get("exc") or "test() -> %s" % o["res"])
    r.note = (r.note + " cut_paths=%d" % eng.cut_paths).strip()
    _cex(r, "packed_test", lambda w_: dict(module="vf.props.c04", func="replay_packed", kwargs=dict(
        n=folders_n, defined=list(defined))), signature=lambda w_: {"obligation": "packed_test", "defined": list(defined)})
    return r


def replay_packed(n, defined):
    import py7zr

    pattern, folders = "f" * n, [1] * n
    img, entries, datas = c06.concrete_case(pattern, folders, {"packcrc": True}, {"size%d" % i: 5 + i for i in range(n)})
    # re-emit with the partially defined vector
    packs = [len(d) for d in datas]
    layout = dict(folders=folders, ncoders=[1] * n, packsizes=packs, crc_at="sub", coder_ids=[b"\x00"], packcrc=True,
                  packcrc_defined=list(defined), packcrcs=[zlib.crc32(d) for d in datas])
    hb = bytes(W.write_header(entries, layout, concrete=True))
    img = W.seal(hb, b"".join(datas))
    try:
        if py7zr.SevenZipFile(io.BytesIO(img)).test() is False:
            return True, "test() reports damage on an intact archive (defined=%s)" % (defined,)
    except Exception as e:  # noqa
        return True, "test() raised on an intact archive: %r" % e
    pos = 32
    for j in range(n):
        if defined[j]:
            bad = bytearray(img)
            bad[pos] ^= 1
            try:
                if py7zr.SevenZipFile(io.BytesIO(bytes(bad))).test() is True:
                    return True, "test() certifies an archive whose packed stream %d (CRC defined) is altered" % j
            except Exception:  # noqa
                pass
        pos += packs[j]
    return False, "test() verdicts right"


def units(tier):
    M = "vf.props.c04"
    us = [Unit("1.signature_header", M, "signature_header", {}, 600)]
    for (p, f, o) in [("ff", [2], {}), ("fdf", [1, 1], {}), ("", [], {})]:
        us.append(Unit("2.next_header[%s]" % RC.shape_name(p, f, o), M, "next_header", dict(pattern=p, folders=f, opts=o), 600))
    shapes = [("ff", [2], {}), ("ff", [1, 1], {}), ("lf", [2], {}), ("fl", [1, 1], {})]
    if tier == "thorough":
        shapes += [("fff", [2, 1], {}), ("flf", [3], {}), ("fdf", [2], {})]
    for (p, f, o) in shapes:
        for mode in ("extractall", "paths", "testzip"):
            us.append(Unit("3.damaged[%s,%s]" % (RC.shape_name(p, f, o), mode), M, "damaged_extract",
                           dict(pattern=p, folders=f, opts=o, mode=mode, unroll=1 if tier == "quick" else 2), 1800))
    for (p, f, o) in [("ff", [1, 1], {}), ("fl", [1, 1], {})]:
        for mode in ("extractall", "testzip"):
            us.append(Unit("3.damaged_by_path[%s,%s]" % (RC.shape_name(p, f, o), mode), M, "damaged_extract",
                           dict(pattern=p, folders=f, opts=o, mode=mode, unroll=1, by_path=True), 1800))
    # mp=True: the workers of the parallel branch are processes
    for mode in ("extractall", "testzip"):
        us.append(Unit("3.damaged_by_path_mp[ff/1+1,%s]" % mode, M, "damaged_extract",
                       dict(pattern="ff", folders=[1, 1], opts={}, mode=mode, unroll=1, by_path=True, mp=True), 1800))
    for n, dfn in [(1, [True]), (2, [True, True]), (2, [False, True]), (2, [True, False])] + ([(3, [False, True, True]), (3, [True, False, True])] if tier == "thorough" else []):
        us.append(Unit("4.packed_test[%s]" % dfn, M, "packed_test", dict(folders_n=n, defined=dfn), 900))
    return us
