"""Shared plumbing: work units, obligation results, evidence, known findings, parallel runner.

Exit codes of a check: 0 = every obligation HOLDS (known findings printed), 1 = a replayed violation
that is not listed as known, 2 = inconclusive / harness error (never reported as success).
"""
from __future__ import annotations

import hashlib
import json
import os
import subprocess
import sys
import tempfile
import time
from dataclasses import asdict, dataclass, field
from typing import Any, Optional

VERIF = os.path.dirname(os.path.dirname(os.path.abspath(__file__)))
REPO = os.environ.get("VERIF_REPO", "/repo")
PY = os.path.join(VERIF, ".venv", "bin", "python")

HOLDS, CEX, INCONCLUSIVE, ERROR = "HOLDS", "COUNTEREXAMPLE", "INCONCLUSIVE", "ERROR"


@dataclass
class Unit:
    """One obligation (or one shard of it), run in its own OS process."""

    name: str
    module: str
    func: str
    kwargs: dict = field(default_factory=dict)
    timeout: float = 300.0


@dataclass
class ObResult:
    name: str = ""
    verdict: str = ERROR
    engine: str = ""
    functions: list = field(default_factory=list)  # qualified names of the real functions encoded
    bounds: str = ""
    paths: int = 0  # paths fully explored
    nontrivial: int = 0  # paths with >=1 symbolic decision
    queries: int = 0  # solver queries discharged
    solver_s: float = 0.0
    wall_s: float = 0.0
    validated: int = 0  # concrete vectors pushed through both the encoding and the real function
    samples: list = field(default_factory=list)
    assumptions: list = field(default_factory=list)
    cex: list = field(default_factory=list)  # dicts: signature, witness, replay{module,func,kwargs}, detail
    note: str = ""
    reach_ok: Optional[bool] = None  # vacuity guard: reachability twin satisfiable
    cross: dict = field(default_factory=dict)  # second-solver cross-check of decisive queries (thorough tier)


def src_hash(qualnames):
    """hash of the source text of the named real functions (module:qualname)"""
    import ast

    out = {}
    cache = {}
    for qn in qualnames:
        mod, _, name = qn.partition(":")
        path = os.path.join(REPO, mod.replace(".", "/") + ".py")
        if path not in cache:
            try:
                src = open(path).read()
                cache[path] = (src, ast.parse(src))
            except OSError:
                cache[path] = (None, None)
        src, tree = cache[path]
        if tree is None:
            out[qn] = None
            continue
        node = None
        body = tree.body
        for part in name.split("."):
            node = next((n for n in body if getattr(n, "name", None) == part), None)
            if node is None:
                break
            body = getattr(node, "body", [])
        if node is None:
            out[qn] = None
        else:
            seg = ast.get_source_segment(src, node) or ""
            out[qn] = hashlib.sha256(seg.encode()).hexdigest()[:12]
    return out


# ----------------------------------------------------------------------------------------- runner
def run_units(units, jobs=None, log=None):
    """run units in parallel OS processes; returns list[ObResult] in unit order"""
    jobs = jobs or int(os.environ.get("VERIF_JOBS", "16"))
    pending = list(enumerate(units))
    running = {}
    results: list[Optional[ObResult]] = [None] * len(units)
    tmpdir = tempfile.mkdtemp(prefix="vf_run_")
    env = dict(os.environ)
    env["PYTHONPATH"] = VERIF + (":" + env["PYTHONPATH"] if env.get("PYTHONPATH") else "")
    env["PYTHONDONTWRITEBYTECODE"] = "1"
    env.setdefault("PYTHONHASHSEED", "0")
    try:
        while pending or running:
            while pending and len(running) < jobs:
                idx, u = pending.pop(0)
                out = os.path.join(tmpdir, "r%d.json" % idx)
                errf = open(os.path.join(tmpdir, "e%d.txt" % idx), "w")
                p = subprocess.Popen(
                    [PY, "-m", "vf.worker", u.module, u.func, json.dumps(u.kwargs), out, u.name],
                    stdout=errf,
                    stderr=subprocess.STDOUT,
                    env=env,
                    cwd=VERIF,
                )
                running[idx] = (p, u, out, time.time(), errf)
            time.sleep(0.05)
            for idx in list(running):
                p, u, out, t0, errf = running[idx]
                rc = p.poll()
                timed_out = rc is None and time.time() - t0 > u.timeout
                if timed_out:
                    p.kill()
                    p.wait()
                if rc is None and not timed_out:
                    continue
                errf.close()
                del running[idx]
                r = None
                if os.path.exists(out):
                    try:
                        r = ObResult(**json.load(open(out)))
                    except Exception as e:  # noqa
                        r = None
                if r is None:
                    tail = open(errf.name).read()[-1500:]
                    r = ObResult(name=u.name, verdict=INCONCLUSIVE if timed_out else ERROR)
                    r.note = ("timeout after %.0fs" % u.timeout) if timed_out else ("worker died rc=%s: %s" % (rc, tail))
                r.name = u.name
                if not r.wall_s:
                    r.wall_s = round(time.time() - t0, 2)
                results[idx] = r
                if log:
                    log(r)
    finally:
        for p, *_ in running.values():
            try:
                p.kill()
            except Exception:
                pass
        import shutil

        shutil.rmtree(tmpdir, ignore_errors=True)
    return results


# ------------------------------------------------------------------------------- known findings
def load_known():
    path = os.path.join(VERIF, "known_findings.json")
    if not os.path.exists(path):
        return []
    return json.load(open(path))["findings"]


def match_known(prop, signature, known):
    """an *open* entry matches when every key of its `match` equals the counterexample's signature"""
    for k in known:
        if k.get("status") != "open":
            continue
        if prop not in k.get("properties", [k.get("property")]):
            continue
        m = k.get("match", {})
        if m and all(signature.get(a) == b for a, b in m.items()):
            return k
    return None


# ------------------------------------------------------------------------------------- evidence
def write_evidence(prop, tier, seed, results, wall, violations, extra_assumptions=(), known_lines=()):
    paths = sum(r.paths for r in results)
    nontrivial = sum(r.nontrivial for r in results)
    queries = sum(r.queries for r in results)
    funcs = sorted({f for r in results for f in r.functions})
    samples = []
    for r in results:
        for s in r.samples[:2]:
            samples.append({"obligation": r.name, "case": s})
    if not samples:
        samples = [{"obligation": r.name, "case": r.note or r.verdict} for r in results[:3]]
    assumptions = sorted({a for r in results for a in r.assumptions} | set(extra_assumptions))
    ev = {
        "property_id": prop,
        "tier": tier,
        "seed": seed,
        "level": "model_checking",
        "coverage": {
            "states": max(paths, 0),
            "transitions": max(queries, 0),
            "traces_validated_against_impl": sum(r.validated for r in results),
            "evaluations": paths,
            "distinct_nontrivial": nontrivial,
            "rule": "one evaluation = one feasible execution path of the real code explored symbolically to its end "
            "(each stands for every input satisfying its path condition; the post-condition query on it is decided by "
            "the SMT solver); paths are distinct by construction (distinct decision prefixes); non-trivial = the path "
            "took at least one decision that depends on a symbolic input",
            "samples": samples[:40],
            "exhaustive": all(r.verdict == HOLDS for r in results),
            "explanation": "bounded symbolic execution of the real functions; every path inside the stated bounds "
            "explored, every query path∧¬post decided by the solver",
            "functions_encoded": src_hash(funcs),
            "queries_discharged": queries,
            "solver_time_s": round(sum(r.solver_s for r in results), 2),
            "solvers": "z3 %s (python API)" % _z3v(),
            "second_solver": {
                "what": "thorough tier: up to 25 decisive (unsat) post-condition queries per obligation are re-decided by cvc5 from "
                        "their SMT-LIB2 text; 'sat' there would make the obligation inconclusive",
                "agree": sum(r.cross.get("agree", 0) for r in results),
                "disagree": sum(r.cross.get("disagree", 0) for r in results),
                "no_answer": sum(r.cross.get("no_answer", 0) for r in results),
            },
            "obligations": len(results),
            "discharged": sum(1 for r in results if r.verdict == HOLDS),
            "obligation_results": [
                {
                    "name": r.name,
                    "verdict": r.verdict,
                    "engine": r.engine,
                    "bounds": r.bounds,
                    "paths": r.paths,
                    "queries": r.queries,
                    "solver_s": round(r.solver_s, 2),
                    "wall_s": round(r.wall_s, 2),
                    "reachability_twin_sat": r.reach_ok,
                    "second_solver": r.cross or None,
                    "note": r.note,
                    "counterexamples": [
                        {k: c.get(k) for k in ("signature", "witness", "reproduced", "known", "replay_path", "detail")}
                        for c in r.cex
                    ],
                }
                for r in results
            ],
            "known_findings_printed": list(known_lines),
        },
        "assumptions": assumptions,
        "wall_s": round(wall, 2),
        "violations": violations,
    }
    if ev["coverage"]["states"] < 1:
        ev["coverage"]["states"] = 1
    if ev["coverage"]["transitions"] < 1:
        ev["coverage"]["transitions"] = 1
    evdir = os.environ.get("VERIF_EVIDENCE_DIR") or os.path.join(VERIF, "evidence")  # (seeded-change runs write elsewhere)
    os.makedirs(evdir, exist_ok=True)
    with open(os.path.join(evdir, prop + ".json"), "w") as f:
        json.dump(ev, f, indent=1, default=str)
    return ev


def _z3v():
    try:
        import z3

        return z3.get_version_string()
    except Exception:
        return "?"


def jsonable(x, depth=0):
    """best-effort conversion of witnesses / samples to JSON-able values"""
    if isinstance(x, (str, int, float, bool)) or x is None:
        return x
    if depth > 12:
        return str(x)
    if isinstance(x, bytes):
        return x.hex()
    if isinstance(x, dict):
        return {str(k): jsonable(v, depth + 1) for k, v in x.items()}
    if isinstance(x, (list, tuple, set)):
        return [jsonable(v, depth + 1) for v in x]
    return str(x)
