"""ref7z – a deliberately small, independent reader of the 7z *container* header, written from the format
description (docs/archive_format.rst / 7zFormat.txt).  It shares no code with py7zr.

It is plain Python over a file-like object with read(n); the same source is (a) executed natively for replays
and (b) interpreted by engine B on symbolic header bytes, so that py7zr's reader/writer can be compared with it on
every value inside the bounds.  Only constructs of the engine's Python subset are used.
"""

K_END, K_HEADER, K_ARCHIVE_PROPS, K_ADD_STREAMS, K_MAIN_STREAMS, K_FILES = 0, 1, 2, 3, 4, 5
K_PACK_INFO, K_UNPACK_INFO, K_SUBSTREAMS, K_SIZE, K_CRC, K_FOLDER = 6, 7, 8, 9, 10, 11
K_CODERS_UNPACK_SIZE, K_NUM_UNPACK_STREAM, K_EMPTY_STREAM, K_EMPTY_FILE, K_ANTI = 12, 13, 14, 15, 16
K_NAMES, K_CTIME, K_ATIME, K_MTIME, K_ATTRS, K_COMMENT, K_ENCODED, K_STARTPOS, K_DUMMY = 17, 18, 19, 20, 21, 22, 23, 24, 25


class FormatError(Exception):
    pass


def rd_byte(f):
    b = f.read(1)
    if len(b) != 1:
        raise FormatError("eof")
    return b[0]


def rd_number(f):
    first = rd_byte(f)
    mask = 0x80
    value = 0
    for i in range(8):
        if first & mask == 0:
            return value + ((first & (mask - 1)) << (8 * i))
        value = value + (rd_byte(f) << (8 * i))
        mask = mask >> 1
    return value


def rd_fixed(f, n):
    b = f.read(n)
    if len(b) != n:
        raise FormatError("eof")
    v = 0
    for i in range(n):
        v = v + (b[i] << (8 * i))
    return v


def rd_bits(f, n):
    out = []
    b = 0
    mask = 0
    for i in range(n):
        if mask == 0:
            b = rd_byte(f)
            mask = 0x80
        out.append(b & mask != 0)
        mask = mask >> 1
    return out


def rd_defined(f, n):
    alldef = rd_byte(f)
    if alldef != 0:
        return [True] * n
    return rd_bits(f, n)


def rd_digests(f, n):
    """Digests: defined vector, then one CRC per *defined* entry"""
    defined = rd_defined(f, n)
    out = []
    for d in defined:
        if d:
            out.append((True, rd_fixed(f, 4)))
        else:
            out.append((False, 0))
    return out


def rd_pack_info(f):
    packpos = rd_number(f)
    n = rd_number(f)
    sizes = []
    crcs = [(False, 0)] * n
    t = rd_byte(f)
    if t == K_SIZE:
        sizes = [rd_number(f) for _ in range(n)]
        t = rd_byte(f)
        if t == K_CRC:
            crcs = rd_digests(f, n)
            t = rd_byte(f)
    # (digests without sizes: the format text brackets both as optional; 7-Zip's own reader waits for kSize first,
    #  and packed streams without sizes cannot be located - not accepted here either)
    if n > 0 and len(sizes) != n:
        raise FormatError("packed streams without sizes")
    if t != K_END:
        raise FormatError("pack info end")
    return {"packpos": packpos, "sizes": sizes, "crcs": crcs}


def rd_folder(f):
    ncoders = rd_number(f)
    coders = []
    total_in = 0
    total_out = 0
    for _ in range(ncoders):
        flag = rd_byte(f)
        idsize = flag & 0x0F
        method = f.read(idsize)
        nin = 1
        nout = 1
        if flag & 0x10 != 0:
            nin = rd_number(f)
            nout = rd_number(f)
        props = None
        if flag & 0x20 != 0:
            plen = rd_number(f)
            props = f.read(plen)
        coders.append({"method": method, "nin": nin, "nout": nout, "props": props})
        total_in = total_in + nin
        total_out = total_out + nout
    nbind = total_out - 1
    bind = []
    for _ in range(nbind):
        a = rd_number(f)
        b = rd_number(f)
        bind.append((a, b))
    npacked = total_in - nbind
    packed = []
    if npacked == 1:
        for i in range(total_in):
            bound = False
            for (a, b) in bind:
                if a == i:
                    bound = True
            if not bound:
                packed.append(i)
    else:
        for _ in range(npacked):
            packed.append(rd_number(f))
    return {"coders": coders, "bind": bind, "packed": packed, "total_out": total_out, "unpacksizes": [], "crc": (False, 0)}


def folder_unpack_size(folder):
    """size of the folder's final output: the out stream that is not the source of any bind pair"""
    n = len(folder["unpacksizes"])
    for i in range(n - 1, -1, -1):
        bound = False
        for (a, b) in folder["bind"]:
            if b == i:
                bound = True
        if not bound:
            return folder["unpacksizes"][i]
    return folder["unpacksizes"][n - 1]


def rd_unpack_info(f):
    t = rd_byte(f)
    if t != K_FOLDER:
        raise FormatError("folder id")
    n = rd_number(f)
    external = rd_byte(f)
    if external != 0:
        raise FormatError("external folders unsupported by the reference")
    folders = [rd_folder(f) for _ in range(n)]
    t = rd_byte(f)
    if t != K_CODERS_UNPACK_SIZE:
        raise FormatError("unpack size id")
    for fo in folders:
        fo["unpacksizes"] = [rd_number(f) for _ in range(fo["total_out"])]
    t = rd_byte(f)
    if t == K_CRC:
        ds = rd_digests(f, n)
        for i in range(n):
            folders[i]["crc"] = ds[i]
        t = rd_byte(f)
    if t != K_END:
        raise FormatError("unpack info end")
    return folders


def rd_substreams(f, folders):
    n = len(folders)
    counts = [1] * n
    t = rd_byte(f)
    if t == K_NUM_UNPACK_STREAM:
        counts = [rd_number(f) for _ in range(n)]
        t = rd_byte(f)
    sizes = []
    for i in range(n):
        if counts[i] == 0:
            sizes.append([])
            continue
        cur = []
        total = 0
        if t == K_SIZE:
            for _ in range(counts[i] - 1):
                s = rd_number(f)
                cur.append(s)
                total = total + s
        elif counts[i] != 1:
            raise FormatError("sizes of a multi-stream folder missing")
        cur.append(folder_unpack_size(folders[i]) - total)
        sizes.append(cur)
    if t == K_SIZE:
        t = rd_byte(f)
    unknown = 0
    for i in range(n):
        if counts[i] != 1 or not folders[i]["crc"][0]:
            unknown = unknown + counts[i]
    ds = None
    if t == K_CRC:
        ds = rd_digests(f, unknown)
        t = rd_byte(f)
    if t != K_END:
        raise FormatError("substreams end")
    digests = []
    k = 0
    for i in range(n):
        cur = []
        if counts[i] == 1 and folders[i]["crc"][0]:
            cur.append(folders[i]["crc"])
        else:
            for _ in range(counts[i]):
                if ds is None:
                    cur.append((False, 0))
                else:
                    cur.append(ds[k])
                    k = k + 1
        digests.append(cur)
    return {"counts": counts, "sizes": sizes, "digests": digests}


def rd_streams_info(f):
    out = {"pack": None, "folders": [], "sub": None}
    t = rd_byte(f)
    if t == K_PACK_INFO:
        out["pack"] = rd_pack_info(f)
        t = rd_byte(f)
    if t == K_UNPACK_INFO:
        out["folders"] = rd_unpack_info(f)
        t = rd_byte(f)
    if t == K_SUBSTREAMS:
        out["sub"] = rd_substreams(f, out["folders"])
        t = rd_byte(f)
    else:
        n = len(out["folders"])
        out["sub"] = {"counts": [1] * n, "sizes": [[folder_unpack_size(fo)] for fo in out["folders"]],
                      "digests": [[fo["crc"]] for fo in out["folders"]]}
    if t != K_END:
        raise FormatError("streams info end")
    return out


def rd_name(f):
    units = []
    while True:
        u = rd_fixed(f, 2)
        if u == 0:
            break
        units.append(u)
    return units


def units_to_str(units):
    out = []
    i = 0
    while i < len(units):
        u = units[i]
        if 0xD800 <= u <= 0xDBFF and i + 1 < len(units):
            out.append(chr(0x10000 + ((u - 0xD800) << 10) + (units[i + 1] - 0xDC00)))
            i = i + 2
        else:
            out.append(chr(u))
            i = i + 1
    return "".join(out)


def rd_files_info(f):
    n = rd_number(f)
    files = [{"emptystream": False, "emptyfile": False, "anti": False} for _ in range(n)]
    nempty = 0
    while True:
        t = rd_byte(f)
        if t == K_END:
            break
        size = rd_number(f)
        data = f.read(size)
        if len(data) != size:
            raise FormatError("property truncated")
        if t == K_DUMMY:
            continue
        g = BytesReader(data)
        if t == K_EMPTY_STREAM:
            bits = rd_bits(g, n)
            nempty = 0
            for i in range(n):
                files[i]["emptystream"] = bits[i]
                if bits[i]:
                    nempty = nempty + 1
        elif t == K_ANTI:
            raise FormatError("anti-items are outside this reference (py7zr does not support them and says so)")
        elif t == K_EMPTY_FILE:
            bits = rd_bits(g, nempty)
            k = 0
            for i in range(n):
                if files[i]["emptystream"]:
                    if t == K_EMPTY_FILE:
                        files[i]["emptyfile"] = bits[k]
                    else:
                        files[i]["anti"] = bits[k]
                    k = k + 1
        elif t == K_NAMES:
            if rd_byte(g) != 0:
                raise FormatError("external names")
            for i in range(n):
                files[i]["name_units"] = rd_name(g)
        elif t == K_CTIME or t == K_ATIME or t == K_MTIME:
            defined = rd_defined(g, n)
            if rd_byte(g) != 0:
                raise FormatError("external times")
            key = "mtime"
            if t == K_CTIME:
                key = "ctime"
            if t == K_ATIME:
                key = "atime"
            for i in range(n):
                if defined[i]:
                    files[i][key] = rd_fixed(g, 8)
                else:
                    files[i][key] = None
        elif t == K_ATTRS:
            defined = rd_defined(g, n)
            if rd_byte(g) != 0:
                raise FormatError("external attributes")
            for i in range(n):
                if defined[i]:
                    files[i]["attributes"] = rd_fixed(g, 4)
                else:
                    files[i]["attributes"] = None
        elif t == K_STARTPOS:
            defined = rd_defined(g, n)
            if rd_byte(g) != 0:
                raise FormatError("external start positions")
            for i in range(n):
                if defined[i]:
                    files[i]["startpos"] = rd_fixed(g, 8)
                else:
                    files[i]["startpos"] = None
        else:
            raise FormatError("unknown file property")
        if g.tell() != size:
            raise FormatError("property size does not match its content")
    return files


class BytesReader:
    def __init__(self, data):
        self.data = data
        self.pos = 0

    def read(self, n):
        r = self.data[self.pos:self.pos + n]
        self.pos = self.pos + len(r)
        return r

    def tell(self):
        return self.pos


def rd_header(f):
    """parse a raw (not encoded) header; returns {'streams': ..., 'files': [...]}"""
    t = rd_byte(f)
    if t != K_HEADER:
        raise FormatError("header id")
    out = {"streams": None, "files": []}
    t = rd_byte(f)
    if t == K_ARCHIVE_PROPS:
        raise FormatError("archive properties unsupported by the reference")
    if t == K_MAIN_STREAMS:
        out["streams"] = rd_streams_info(f)
        t = rd_byte(f)
    if t == K_FILES:
        out["files"] = rd_files_info(f)
        t = rd_byte(f)
    if t != K_END:
        raise FormatError("header end")
    return out


def member_map(h):
    """what the format assigns to each member: folder, index in folder, offset in the folder's output, size, crc"""
    out = []
    st = h["streams"]
    fi = 0
    k = 0
    off = 0
    for m in h["files"]:
        if m["emptystream"] or st is None:
            out.append({"folder": None, "size": 0, "crc": None, "offset": 0, "index": 0})
            continue
        while fi < len(st["folders"]) and k >= st["sub"]["counts"][fi]:
            fi = fi + 1
            k = 0
            off = 0
        if fi >= len(st["folders"]):
            raise FormatError("more non-empty files than substreams")
        size = st["sub"]["sizes"][fi][k]
        d = st["sub"]["digests"][fi][k]
        crc = None
        if d[0]:
            crc = d[1]
        out.append({"folder": fi, "size": size, "crc": crc, "offset": off, "index": k})
        off = off + size
        k = k + 1
    if st is not None:
        used = 0
        for m in out:
            if m["folder"] is not None:
                used = used + 1
        total = 0
        for cnt in st["sub"]["counts"]:
            total = total + cnt
        if total != used:
            raise FormatError("number of substreams differs from the number of non-empty files")
    return out
