"""Value domains of the symbolic interpreter (engine B)."""
from __future__ import annotations

import z3


class Inconclusive(Exception):
    """the engine cannot decide (unsupported construct, solver unknown, unwinding bound hit, possible overflow)"""


class Unsupported(Inconclusive):
    pass


class Unwind(Inconclusive):
    pass


class PathEnd(Exception):
    """current path is infeasible"""


class ReturnEx(Exception):
    def __init__(self, value):
        self.value = value


class BreakEx(Exception):
    pass


class ContinueEx(Exception):
    pass


class ModelRaise(Exception):
    """a Python exception raised by the interpreted code (modelled, catchable by try/except of the interpreted code)"""

    def __init__(self, name, args=(), cls=None):
        super().__init__(name)
        self.name = name
        self.eargs = tuple(args)
        self.cls = cls

    def __str__(self):
        return self.name


def is_sym(x):
    return z3.is_expr(x)


class SBytes:
    """byte string of concrete length; items are python ints or z3 terms (int-domain of the engine)"""

    __slots__ = ("items", "mutable")

    def __init__(self, items=(), mutable=False):
        self.items = list(items)
        self.mutable = mutable

    def __len__(self):
        return len(self.items)

    def concrete(self):
        return all(isinstance(x, int) for x in self.items)

    def tobytes(self):
        return bytes(self.items)

    def __repr__(self):
        if self.concrete():
            return "SBytes(%r)" % bytes(self.items)
        return "SBytes(%d items)" % len(self.items)


class Rope:
    """content-abstract byte string of symbolic length: list of (source, offset, length) segments"""

    __slots__ = ("segs",)

    def __init__(self, segs=()):
        self.segs = list(segs)

    def length(self):
        n = 0
        for s in self.segs:
            n = n + s[2]
        return z3.simplify(n) if is_sym(n) else n

    def __repr__(self):
        return "Rope(%r)" % (self.segs,)


class SStr:
    """string of concrete length whose code points may be symbolic"""

    __slots__ = ("cps",)

    def __init__(self, cps=()):
        self.cps = list(cps)

    def __len__(self):
        return len(self.cps)


class SClass:
    """a class whose methods are interpreted from the AST"""

    def __init__(self, name, module, node, real):
        self.name, self.module, self.node, self.real = name, module, node, real
        self.methods = {}
        self.bases = []  # SClass

    def find(self, name):
        if name in self.methods:
            return self, self.methods[name]
        for b in self.bases:
            r = b.find(name)
            if r:
                return r
        return None

    def __repr__(self):
        return "<SClass %s>" % self.name


class SObj:
    """instance of an interpreted class"""

    def __init__(self, cls):
        self.cls = cls
        self.attrs = {}

    def __repr__(self):
        return "<SObj %s>" % self.cls.name


class FuncRef:
    def __init__(self, module, qualname, node, cls=None):
        self.module, self.qualname, self.node, self.cls = module, qualname, node, cls

    def __repr__(self):
        return "<FuncRef %s:%s>" % (self.module, self.qualname)


class BoundMethod:
    def __init__(self, obj, func):
        self.obj, self.func = obj, func


class Closure:
    """lambda / nested def with captured environment"""

    def __init__(self, node, env, module):
        self.node, self.env, self.module = node, env, module


class ModRef:
    """reference to a real (non-interpreted) module such as io, os, struct"""

    def __init__(self, real):
        self.real = real

    def __repr__(self):
        return "<ModRef %s>" % self.real.__name__


class SFile:
    """in-memory binary file over byte items (io.BytesIO model)"""

    def __init__(self, items=(), log=None):
        self.items = list(items)
        self.pos = 0
        self.log = log  # optional list receiving ('seek'|'write', pos, n)


class ExcClassRef:
    """an exception class referenced by the interpreted code"""

    def __init__(self, name, real):
        self.name, self.real = name, real
