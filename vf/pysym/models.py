"""Models of builtins / stdlib callables and of operations on the value domains (engine B)."""
from __future__ import annotations

import ast
import binascii
import builtins
import functools
import io
import operator
import os
import struct
import sys

import z3

from vf.pysym.values import (BoundMethod, Closure, ExcClassRef, FuncRef, Inconclusive, ModelRaise, ModRef, Rope, SBytes,
                             SClass, SFile, SObj, SStr, Unsupported, Unwind, is_sym)


class Native:
    """base of stub objects handed to the interpreted code; methods are called as obj.<name>(engine, *args)"""


class StrOf(Native):
    """str(<symbolic int>): the decimal rendering is not modelled, the value is kept"""

    def __init__(self, term):
        self.term = term


class CrcVal:
    """CRC32 abstraction: the identity of the byte sequence hashed (collision-free)"""

    def __init__(self, items):
        self.items = list(items)


def err(name, cls=None):
    return ModelRaise(name, cls=cls or getattr(builtins, name, None))


# ----------------------------------------------------------------------------------------- operators
def concrete_binop(eng, t, a, b, strict=False):
    if isinstance(a, SBytes) and isinstance(b, SBytes) and t is ast.Add:
        return SBytes(a.items + b.items, a.mutable)
    if isinstance(a, SBytes) and isinstance(b, Native) and hasattr(b, "items") and t is ast.Add:
        return SBytes(a.items + list(b.items), a.mutable)  # opaque chunk objects of a stub are kept as items
    if isinstance(a, Rope) and isinstance(b, Rope) and t is ast.Add:
        return Rope(a.segs + b.segs)
    if isinstance(a, SBytes) and isinstance(b, int) and t is ast.Mult:
        return SBytes(a.items * b)
    if isinstance(a, SStr) and isinstance(b, SStr) and t is ast.Add:
        return SStr(a.cps + b.cps)
    if isinstance(a, list) and t is ast.Mult and isinstance(b, int):
        return a * b
    if isinstance(a, list) and t is ast.Mult and is_sym(b):
        n = eng.sym_range(b)
        return a * len(n)
    if isinstance(a, list) and isinstance(b, list) and t is ast.Add:
        return a + b
    if isinstance(a, tuple) and isinstance(b, tuple) and t is ast.Add:
        return a + b
    if isinstance(a, str) and t is ast.Mod:
        return "<fmt>"
    if strict:
        raise Unsupported("binop %s on %s,%s" % (t.__name__, type(a).__name__, type(b).__name__))
    return NotImplemented


def real_binop(eng, t, a, b):
    from vf.pysym import sfloat

    return sfloat.binop(eng, t, a, b)


def crc_term(eng, c):
    """CRC32 abstraction: one 32-bit symbol per hashed content, with  symbol equality <=> content equality
    (i.e. CRC32 is assumed collision-free on the byte strings in play); concrete content gets the real zlib value"""
    import zlib

    items = c.items
    concrete = all(isinstance(x, int) and not isinstance(x, bool) for x in items)
    key = tuple(_ikey(x) for x in items)
    reg = eng.__dict__.setdefault("crc_reg", {})
    if key not in reg:
        if concrete:
            kval = zlib.crc32(bytes(items)) & 0xFFFFFFFF
            sym = z3.BitVecVal(kval, 32) if eng.intmode == "bv" else z3.IntVal(kval)
        elif eng.intmode == "bv":
            sym = z3.BitVec(_crc_name(key), 32)
        else:
            sym = z3.Int(_crc_name(key))
            eng.add_axiom(z3.And(sym >= 0, sym < 2 ** 32))
            eng.ranges[_crc_name(key)] = (0, 2 ** 32 - 1)
        for k2, (sym2, items2, conc2) in reg.items():
            if concrete and conc2:
                continue
            same = _seq_eq(eng, items, items2) if len(items) == len(items2) else False
            eng.add_axiom((sym == sym2) == (same if is_sym(same) else z3.BoolVal(same)))
        reg[key] = (sym, list(items), concrete)
    if concrete:
        return zlib.crc32(bytes(items)) & 0xFFFFFFFF
    h = reg[key][0]
    if eng.intmode == "bv":
        return eng._rec(z3.ZeroExt(eng.W - 32, h), 32)
    return h


def _crc_name(key):
    """one symbol per hashed content, named by the content's identity (stable across paths and post-conditions)"""
    import hashlib

    return "crc!" + hashlib.sha1(repr(key).encode()).hexdigest()[:12]


def _ikey(x):
    if type(x).__name__ == "Tok":
        return ("T", _ikey(x.value))
    if is_sym(x):
        return ("t", x.hash(), x.num_args(), x.decl().name())
    return ("c", x)


def _byte8(eng, x):
    if not is_sym(x):
        return z3.BitVecVal(x, 8)
    if eng.intmode == "bv":
        return z3.Extract(7, 0, x)
    return z3.Int2BV(x, 8)


def compare(eng, t, a, b):
    if (is_sym(a) and z3.is_string(a)) or (is_sym(b) and z3.is_string(b)):
        if t in (ast.Eq, ast.NotEq):
            if a is None or b is None:
                return t is ast.NotEq
            A = a if is_sym(a) else z3.StringVal(a)
            B = b if is_sym(b) else z3.StringVal(b)
            return (A == B) if t is ast.Eq else (A != B)
        if t in (ast.Is, ast.IsNot):
            return t is ast.IsNot  # a string value is never None
        raise Unsupported("ordering of symbolic strings")
    if (hasattr(a, "path_code") or hasattr(b, "path_code")) and t in (ast.Eq, ast.NotEq):
        from vf.pysym import pathdom

        try:
            r = eng.compare(ast.Eq(), pathdom.code_of(a), pathdom.code_of(b))
        except Unsupported:
            r = False  # a literal outside the component alphabet never equals a component of it
        return r if t is ast.Eq else _neg(r)
    if isinstance(a, CrcVal) and isinstance(b, CrcVal) and t in (ast.Eq, ast.NotEq):
        if len(a.items) != len(b.items):
            r = False  # different lengths never collide (part of the collision-freeness assumption)
        else:
            r = _seq_eq(eng, a.items, b.items)
        return r if t is ast.Eq else _neg(r)
    if hasattr(a, "as_crc_term") or hasattr(b, "as_crc_term"):
        a = a.as_crc_term(eng) if hasattr(a, "as_crc_term") else a
        b = b.as_crc_term(eng) if hasattr(b, "as_crc_term") else b
        return eng.compare(t(), a, b)
    if isinstance(a, CrcVal) or isinstance(b, CrcVal):
        a = crc_term(eng, a) if isinstance(a, CrcVal) else a
        b = crc_term(eng, b) if isinstance(b, CrcVal) else b
        return eng.compare(t(), a, b)
    if isinstance(a, SBytes) and isinstance(b, SBytes) and t in (ast.Eq, ast.NotEq):
        if len(a) != len(b):
            r = False
        else:
            r = _seq_eq(eng, a.items, b.items)
        return r if t is ast.Eq else _neg(r)
    if isinstance(a, SStr) and isinstance(b, SStr) and t in (ast.Eq, ast.NotEq):
        r = False if len(a) != len(b) else _seq_eq(eng, a.cps, b.cps)
        return r if t is ast.Eq else _neg(r)
    if isinstance(a, (SBytes, SStr)) != isinstance(b, (SBytes, SStr)) and t in (ast.Eq, ast.NotEq) and not isinstance(
            a, Rope) and not isinstance(b, Rope):
        if isinstance(a, (SBytes, SStr)) and isinstance(b, (bytes, str)):
            return compare(eng, t, a, lift_seq(eng, b))
        if isinstance(b, (SBytes, SStr)) and isinstance(a, (bytes, str)):
            return compare(eng, t, lift_seq(eng, a), b)
        if not is_sym(a) and not is_sym(b):
            return t is ast.NotEq
    if (isinstance(a, Rope) or isinstance(b, Rope)) and t in (ast.Eq, ast.NotEq) and a is not None and b is not None:
        from vf.pysym import ropes

        return ropes.compare(eng, t, a, b)
    return NotImplemented


def lift_seq(eng, x):
    if isinstance(x, (bytes, bytearray)):
        return SBytes(list(x))
    if isinstance(x, str):
        return SStr([ord(c) for c in x])
    return x


def _neg(r):
    return (not r) if isinstance(r, bool) else z3.Not(r)


def _groups(eng, xs):
    """positions i where xs[i:i+n] are exactly the n little-endian bytes of one value v (Int-mode to_bytes): {i: (v, n)}"""
    reg_ = eng.__dict__.get("byteof")
    out = {}
    if not reg_:
        return out
    i = 0
    while i < len(xs):
        x = xs[i]
        inf = reg_.get(x.get_id()) if is_sym(x) else None
        if inf is not None and inf[2] == 0 and i + inf[3] <= len(xs):
            n, v = inf[3], inf[1]
            ok = all(is_sym(xs[i + j]) and reg_.get(xs[i + j].get_id()) is not None
                     and reg_[xs[i + j].get_id()][1] is v and reg_[xs[i + j].get_id()][2] == j for j in range(n))
            if ok:
                out[i] = (v, n)
                i += n
                continue
        i += 1
    return out


def _seq_eq(eng, xs, ys):
    conds = []
    gx, gy = _groups(eng, xs), _groups(eng, ys)
    skip = set()
    for i, (v, n) in gx.items():
        if i in gy and gy[i][1] == n:
            conds.append(v == gy[i][0])  # whole byte groups: equal bytes <=> equal values (both within 0..256^n)
            skip.update(range(i, i + n))
    for k_, (x, y) in enumerate(zip(xs, ys)):
        if k_ in skip:
            continue
        tx, ty = type(x).__name__ == "Tok", type(y).__name__ == "Tok"
        if tx or ty:
            if not (tx and ty):
                return False
            x, y = x.value, y.value
        if not is_sym(x) and not is_sym(y):
            if x != y:
                return False
            continue
        conds.append(eng.lift(x) == eng.lift(y))
    if not conds:
        return True
    return z3.And(*conds) if len(conds) > 1 else conds[0]


def contains(eng, container, item):
    if isinstance(container, dict):
        if is_sym(item):
            raise Unsupported("symbolic dict key")
        return item in container
    if isinstance(container, (list, tuple, set, frozenset)):
        if not is_sym(item) and not isinstance(item, Native) and all(
                not is_sym(x) and not isinstance(x, (SBytes, SStr, Native)) for x in container):
            return item in container
        rs = [eng.compare(ast.Eq(), item, x) for x in container]
        if all(isinstance(r, bool) for r in rs):
            return any(rs)
        return z3.Or(*[r if is_sym(r) else z3.BoolVal(r) for r in rs])
    if isinstance(container, str) and isinstance(item, str):
        return item in container
    if isinstance(container, SObj):
        return eng.method(container, "__contains__", item)
    raise Unsupported("in on %r" % type(container).__name__)


# --------------------------------------------------------------------------------------- attributes
def getattr(eng, obj, attr):
    if obj is None:
        raise ModelRaise("AttributeError", [attr], cls=AttributeError)
    if isinstance(obj, SObj):
        if attr in obj.attrs:
            return obj.attrs[attr]
        r = obj.cls.find(attr)
        if r:
            _, f = r
            if isinstance(f, SClass):
                return f
            decos = [d.id for d in f.node.decorator_list if isinstance(d, ast.Name)]
            if "property" in decos:
                return eng.call_function(f, [obj], {})
            if "staticmethod" in decos:
                return f
            if "classmethod" in decos:
                return BoundMethod(obj.cls, f)
            return BoundMethod(obj, f)
        # class-level constants
        c = obj.cls
        while c is not None:
            if c.real is not None and hasattr(c.real, attr):
                return eng.wrap_real(builtins.getattr(c.real, attr))
            c = c.bases[0] if c.bases else None
        raise ModelRaise("AttributeError", [attr], cls=AttributeError)
    if isinstance(obj, SClass):
        r = obj.find(attr)
        if r:
            _, f = r
            if isinstance(f, SClass):
                return f
            decos = [d.id for d in f.node.decorator_list if isinstance(d, ast.Name)]
            if "classmethod" in decos:
                return BoundMethod(obj, f)
            return f
        if obj.real is not None and hasattr(obj.real, attr):
            return eng.wrap_real(builtins.getattr(obj.real, attr))
        raise ModelRaise("AttributeError", [attr], cls=AttributeError)
    if isinstance(obj, ModRef):
        real = obj.real
        if real.__name__.startswith("py7zr") and real.__name__ in eng.modules:
            return eng.global_lookup(real.__name__, attr)
        if not hasattr(real, attr):
            raise ModelRaise("AttributeError", [attr], cls=AttributeError)
        return eng.wrap_real(builtins.getattr(real, attr), attr)
    if isinstance(obj, Native):
        if hasattr(obj, "get_" + attr):
            return builtins.getattr(obj, "get_" + attr)(eng)
        if hasattr(obj, "attrs") and attr in obj.attrs:
            return obj.attrs[attr]
        if hasattr(obj, attr) and not callable(builtins.getattr(obj, attr)):
            return builtins.getattr(obj, attr)
        return ("nativemethod", obj, attr)
    if isinstance(obj, ModelRaise):
        if attr == "with_traceback":
            return ("boundnative", obj, attr)
        if attr == "args":
            return obj.eargs
        if attr == "errno":
            return builtins.getattr(obj, "errno", None)
    if isinstance(obj, type) or callable(obj) and not is_sym(obj):
        if hasattr(obj, attr):
            return eng.wrap_real(builtins.getattr(obj, attr), attr)
    if isinstance(obj, SBytes) and attr == "nbytes":
        return len(obj.items)
    if isinstance(obj, (dict, list, str, tuple, set, int, SBytes, SStr, SFile, Rope)) or is_sym(obj):
        return ("boundnative", obj, attr)
    if hasattr(obj, attr) and not is_sym(obj):
        return eng.wrap_real(builtins.getattr(obj, attr), attr)
    raise Unsupported("attribute %s of %r" % (attr, type(obj).__name__))


def setattr(eng, obj, attr, v):
    if isinstance(obj, SObj):
        obj.attrs[attr] = v
    elif isinstance(obj, Native):
        if hasattr(obj, "set_" + attr):
            builtins.getattr(obj, "set_" + attr)(eng, v)
        else:
            builtins.setattr(obj, attr, v)
    else:
        raise Unsupported("setattr on %r" % type(obj).__name__)


# ---------------------------------------------------------------------------------------- subscripts
def _index(eng, n, idx):
    """resolve a (possibly symbolic) index into a container of concrete length n by forking"""
    if not is_sym(idx):
        if idx < -n or idx >= n:
            raise err("IndexError")
        return idx % n if n else idx
    for k in range(n):
        if eng.branch(eng.compare(ast.Eq(), idx, k)):
            return k
    for k in range(1, n + 1):
        if eng.branch(eng.compare(ast.Eq(), idx, -k)):
            return n - k
    raise err("IndexError")


def getitem(eng, obj, idx):
    if isinstance(obj, SBytes):
        return obj.items[_index(eng, len(obj.items), idx)]
    if isinstance(obj, (list, tuple)):
        return obj[_index(eng, len(obj), idx)]
    if isinstance(obj, dict):
        if is_sym(idx) and z3.is_string(idx):
            for k_ in obj:
                if isinstance(k_, str) and eng.branch(idx == z3.StringVal(k_)):
                    return obj[k_]
            raise ModelRaise("KeyError", ["<symbolic key>"], cls=KeyError)
        if is_sym(idx):
            raise Unsupported("symbolic dict key")
        if isinstance(idx, SBytes):
            idx = idx.tobytes()
        if idx not in obj:
            raise ModelRaise("KeyError", [idx], cls=KeyError)
        return obj[idx]
    if isinstance(obj, SStr):
        return SStr([obj.cps[_index(eng, len(obj.cps), idx)]])
    if isinstance(obj, str):
        return obj[idx]
    if isinstance(obj, SObj):
        return eng.method(obj, "__getitem__", idx)
    if isinstance(obj, Native):
        return obj.getitem(eng, idx)
    if isinstance(obj, Rope):
        raise Unsupported("byte indexing of a rope (content-abstract)")
    raise Unsupported("getitem on %r" % type(obj).__name__)


def setitem(eng, obj, idx, v):
    if isinstance(obj, SBytes):
        obj.items[_index(eng, len(obj.items), idx)] = v
    elif isinstance(obj, list):
        obj[_index(eng, len(obj), idx)] = v
    elif isinstance(obj, dict):
        if is_sym(idx):
            raise Unsupported("symbolic dict key")
        obj[idx] = v
    elif isinstance(obj, SObj):
        eng.method(obj, "__setitem__", idx, v)
    else:
        raise Unsupported("setitem on %r" % type(obj).__name__)


def _clamp(eng, n, lo, hi):
    """python slice clamping for a container of concrete length n; symbolic bounds are resolved by forking"""

    def res(x, default):
        if x is None:
            return default
        if not is_sym(x):
            if x < 0:
                x = max(x + n, 0)
            return min(x, n)
        for k in range(0, n + 1):
            if eng.branch(eng.compare(ast.Eq(), x, k)):
                return k
        if eng.branch(eng.compare(ast.Gt(), x, n)):
            return n
        for k in range(1, n + 1):
            if eng.branch(eng.compare(ast.Eq(), x, -k)):
                return n - k
        return 0

    return res(lo, 0), res(hi, n)


def getslice(eng, obj, lo, hi):
    if isinstance(obj, Native) and hasattr(obj, "getslice"):
        return obj.getslice(eng, lo, hi)
    if isinstance(obj, Rope):
        from vf.pysym import ropes

        return ropes.rope_slice(eng, obj, lo, hi)
    if isinstance(obj, SBytes):
        a, b = _clamp(eng, len(obj.items), lo, hi)
        return SBytes(obj.items[a:b], obj.mutable)
    if isinstance(obj, SStr):
        a, b = _clamp(eng, len(obj.cps), lo, hi)
        return SStr(obj.cps[a:b])
    if isinstance(obj, (list, tuple, str)):
        a, b = _clamp(eng, len(obj), lo, hi)
        return obj[a:b]
    raise Unsupported("slice of %r" % type(obj).__name__)


def setslice(eng, obj, lo, hi, v):
    if isinstance(obj, Rope):
        from vf.pysym import ropes

        return ropes.rope_setslice(eng, obj, lo, hi, v)
    if isinstance(obj, SBytes):
        a, b = _clamp(eng, len(obj.items), lo, hi)
        obj.items[a:b] = list(v.items)
        return
    if isinstance(obj, list):
        a, b = _clamp(eng, len(obj), lo, hi)
        obj[a:b] = list(v)
        return
    raise Unsupported("slice assignment on %r" % type(obj).__name__)


# ----------------------------------------------------------------------------------- int <-> bytes
def to_bytes(eng, v, size, order="little", signed=False):
    if isinstance(v, CrcVal):
        v = crc_term(eng, v)
    if is_sym(size):
        raise Unsupported("symbolic to_bytes size")
    if not is_sym(v):
        try:
            b = int(v).to_bytes(size, order, signed=signed)
        except OverflowError:
            raise err("OverflowError")
        return SBytes(list(b))
    if eng.intmode == "bv":
        if eng.branch(z3.Or(v < 0, v >= z3.BitVecVal(1 << (8 * size), eng.W)) if 8 * size < eng.W - 1 else (v < 0)):
            raise err("OverflowError")
        items = [eng._rec(z3.ZeroExt(eng.W - 8, z3.Extract(8 * i + 7, 8 * i, v)), 8) for i in range(size)]
    else:
        if eng.branch(z3.Or(v < 0, v >= (1 << (8 * size)))):
            raise err("OverflowError")
        iv = eng.ival(v)
        if iv is not None and 0 <= iv[0] and iv[1] <= 255:
            items = [v] + [z3.IntVal(0)] * (size - 1)  # fits one byte: no div/mod needed
        else:
            items = [(v / (1 << (8 * i))) % 256 for i in range(size)]
        reg_ = eng.__dict__.setdefault("byteof", {})
        for i, it in enumerate(items):
            reg_[it.get_id()] = (it, v, i, size)
    if order == "big":
        items.reverse()
    return SBytes(items)


def from_bytes(eng, b, order="little"):
    items = list(b.items)
    if any(type(x).__name__ == "Tok" for x in items):
        raise ModelRaise("Desync")
    if order == "big":
        items.reverse()
    reg_ = eng.__dict__.get("byteof")
    if reg_ and items and all(is_sym(x) and x.get_id() in reg_ for x in items):
        infos = [reg_[x.get_id()] for x in items]
        v0, n0 = infos[0][1], infos[0][3]
        if n0 == len(items) and all(inf[1] is v0 and inf[2] == i and inf[3] == n0 for i, inf in enumerate(infos)):
            return v0  # the little-endian bytes of v0, reassembled
    acc = 0
    for i, x in enumerate(items):
        acc = eng.binop(ast.BitOr() if eng.intmode == "bv" else ast.Add(), acc, eng.binop(ast.LShift(), x, 8 * i))
    return acc


def bit_length(eng, v):
    if not is_sym(v):
        return int(v).bit_length()
    if eng.intmode != "bv":
        raise Unsupported("bit_length in Int mode")
    if eng.branch(v < 0):
        raise Unsupported("bit_length of a negative BV")
    for k in range(0, eng.bits(v) + 1):
        if eng.branch(z3.ULT(v, z3.BitVecVal(1 << k, eng.W))):
            return k
    raise Inconclusive("bit_length out of tracked range")


_STRUCT = {"B": (1, False), "<B": (1, False), "<L": (4, False), "<Q": (8, False), "<H": (2, False), "<I": (4, False)}


def struct_pack(eng, fmt, *vals):
    if fmt in _STRUCT and len(vals) == 1:
        size, _ = _STRUCT[fmt]
        v = vals[0]
        if isinstance(v, CrcVal):
            v = crc_term(eng, v)
        if v is None or isinstance(v, (SBytes, str, SStr)):
            raise ModelRaise("struct.error", cls=struct.error)
        try:
            return to_bytes(eng, v, size)
        except ModelRaise as e:
            if e.name == "OverflowError":
                raise ModelRaise("struct.error", cls=struct.error)
            raise
    if all(not is_sym(v) for v in vals):
        return SBytes(list(struct.pack(fmt, *vals)))
    raise Unsupported("struct.pack %r" % fmt)


def struct_unpack(eng, fmt, b):
    if isinstance(b, Rope):
        raise Unsupported("unpack of a rope")
    if fmt in _STRUCT:
        size, _ = _STRUCT[fmt]
        if len(b) != size:
            raise ModelRaise("struct.error", cls=struct.error)
        return (from_bytes(eng, b),)
    if b.concrete():
        return struct.unpack(fmt, b.tobytes())
    raise Unsupported("struct.unpack %r" % fmt)


# ------------------------------------------------------------------------------------------ SFile
def file_read(eng, f, n=None):
    rem = len(f.items) - f.pos if f.pos <= len(f.items) else 0
    if n is None:
        k = rem
    elif not is_sym(n):
        k = rem if n < 0 else min(n, rem)
    else:
        k = None
        for c in range(rem + 1):
            if eng.branch(eng.compare(ast.Eq(), n, c)):
                k = c
                break
        if k is None:
            k = rem  # n > rem or n < 0: everything that is left
    r = f.items[f.pos:f.pos + k]
    f.pos += k
    return SBytes(r)


def file_write(eng, f, data):
    if isinstance(data, (bytes, bytearray)):
        data = SBytes(list(data))
    if isinstance(data, Native) and hasattr(data, "items"):
        data = SBytes(list(data.items))  # opaque chunk objects of a stub (kept as items)
    if not isinstance(data, SBytes):
        raise ModelRaise("TypeError", cls=TypeError)
    if f.log is not None:
        f.log.append(("write", f.pos, len(data.items)))
    if f.pos > len(f.items):
        f.items.extend([0] * (f.pos - len(f.items)))
    for x in data.items:
        if f.pos < len(f.items):
            f.items[f.pos] = x
        else:
            f.items.append(x)
        f.pos += 1
    return len(data.items)


def file_seek(eng, f, off, whence=0):
    if is_sym(off):
        n = len(f.items)
        base = 0 if whence == 0 else (f.pos if whence == 1 else n)
        for c in range(0, n + 2):
            if eng.branch(eng.compare(ast.Eq(), off, c - base)):
                off = c - base
                break
        else:
            off = n + 1 - base  # anywhere beyond the end: every later read returns nothing
    if whence == 0:
        p = off
    elif whence == 1:
        p = f.pos + off
    else:
        p = len(f.items) + off
    if p < 0:
        raise ModelRaise("ValueError", cls=ValueError)
    f.pos = p
    if f.log is not None:
        f.log.append(("seek", p, 0))
    return p


# ------------------------------------------------------------------------------------------ utf-16
def utf16_encode(eng, s):
    out = []
    for cp in s.cps:
        if not is_sym(cp):
            try:
                out.extend(chr(cp).encode("utf-16LE"))
            except UnicodeEncodeError:
                raise err("UnicodeEncodeError")
            continue
        if eng.branch(z3.And(cp >= 0xD800, cp <= 0xDFFF)):
            raise err("UnicodeEncodeError")
        if eng.branch(cp < 0x10000):
            out += [eng.binop(ast.BitAnd(), cp, 0xFF), eng.binop(ast.RShift(), cp, 8)]
        else:
            v = eng.binop(ast.Sub(), cp, 0x10000)
            hi = eng.binop(ast.Add(), 0xD800, eng.binop(ast.BitAnd(), eng.binop(ast.RShift(), v, 10), 0x3FF))
            lo = eng.binop(ast.Add(), 0xDC00, eng.binop(ast.BitAnd(), v, 0x3FF))
            for u in (hi, lo):
                out += [eng.binop(ast.BitAnd(), u, 0xFF), eng.binop(ast.RShift(), u, 8)]
    return SBytes(out)


def utf16_decode(eng, b):
    if len(b.items) % 2:
        raise err("UnicodeDecodeError")
    units = [eng.binop(ast.BitOr(), b.items[i], eng.binop(ast.LShift(), b.items[i + 1], 8)) for i in range(0, len(b.items), 2)]
    out, i = [], 0
    while i < len(units):
        u = units[i]
        U = eng.lift(u)
        if eng.branch(z3.And(U >= 0xD800, U <= 0xDBFF)):
            if i + 1 >= len(units):
                raise err("UnicodeDecodeError")
            n = eng.lift(units[i + 1])
            if not eng.branch(z3.And(n >= 0xDC00, n <= 0xDFFF)):
                raise err("UnicodeDecodeError")
            hi = eng.binop(ast.LShift(), eng.binop(ast.Sub(), u, 0xD800), 10)
            out.append(eng.binop(ast.Add(), 0x10000, eng.binop(ast.Add(), hi, eng.binop(ast.Sub(), units[i + 1], 0xDC00))))
            i += 2
        elif eng.branch(z3.And(U >= 0xDC00, U <= 0xDFFF)):
            raise err("UnicodeDecodeError")
        else:
            out.append(u)
            i += 1
    if all(not is_sym(c) for c in out):
        return "".join(chr(c) for c in out)
    return SStr(out)


# ------------------------------------------------------------------------------------- method calls
def call_method(eng, obj, name, args, kw):
    if isinstance(obj, SObj):
        if name in obj.attrs:
            return eng.call_value(obj.attrs[name], args, kw)
        r = obj.cls.find(name)
        if not r:
            raise ModelRaise("AttributeError", [name], cls=AttributeError)
        f = r[1]
        if isinstance(f, SClass):
            return eng.new(f, *args, **kw)
        decos = [d.id for d in f.node.decorator_list if isinstance(d, ast.Name)] if isinstance(f, FuncRef) else []
        if "staticmethod" in decos:
            return eng.call_function(f, args, kw)
        if "classmethod" in decos:
            return eng.call_function(f, [obj.cls] + args, kw)
        return eng.call_function(f, [obj] + args, kw)
    if isinstance(obj, SClass):
        r = obj.find(name)
        if not r:
            raise ModelRaise("AttributeError", [name], cls=AttributeError)
        f = r[1]
        if isinstance(f, SClass):
            return eng.new(f, *args, **kw)
        decos = [d.id for d in f.node.decorator_list if isinstance(d, ast.Name)]
        if "classmethod" in decos:
            return eng.call_function(f, [obj] + args, kw)
        return eng.call_function(f, args, kw)
    if isinstance(obj, Native):
        return builtins.getattr(obj, name)(eng, *args, **kw)
    if isinstance(obj, ModRef):
        return eng.call_value(getattr(eng, obj, name), args, kw)
    if isinstance(obj, SFile):
        if name == "read":
            return file_read(eng, obj, *args)
        if name == "write":
            return file_write(eng, obj, *args)
        if name == "seek":
            return file_seek(eng, obj, *args)
        if name == "tell":
            from vf.pysym import tokens

            if tokens.has_tok(obj.items[:obj.pos]):
                return tokens.byte_len(eng, obj.items[:obj.pos])
            return obj.pos
        if name == "getvalue":
            return SBytes(obj.items)
        if name in ("close", "flush"):
            return None
        if name == "getbuffer":
            return SBytes(obj.items)
    if isinstance(obj, SBytes):
        if name == "decode" and builtins.getattr(eng, "decode_hook", None) is not None:
            r_ = eng.decode_hook(eng, obj)
            if r_ is not NotImplemented:
                return r_
        if name == "decode":
            enc = (args[0] if args else kw.get("encoding", "utf-8")).lower().replace("_", "-")
            if enc in ("utf-16le", "utf-16-le"):
                return utf16_decode(eng, obj)
            if obj.concrete():
                try:
                    return obj.tobytes().decode(enc)
                except UnicodeDecodeError:
                    raise err("UnicodeDecodeError")
            raise Unsupported("decode %s of symbolic bytes" % enc)
        if name == "hex" and obj.concrete():
            return obj.tobytes().hex()
        if name == "count" and obj.concrete():
            return obj.tobytes().count(args[0].tobytes())
    if isinstance(obj, SStr):
        if name == "encode":
            enc = (args[0] if args else "utf-8").lower()
            if enc in ("utf-16le", "utf-16-le"):
                return utf16_encode(eng, obj)
            raise Unsupported("encode " + enc)
        if name == "replace" and all(isinstance(a, str) and len(a) == 1 for a in args[:2]):
            a, b = ord(args[0]), ord(args[1])
            return SStr([eng.ite(eng.compare(ast.Eq(), c, a), b, c) if is_sym(c) else (b if c == a else c) for c in obj.cps])
    if isinstance(obj, str):
        if name == "encode":
            try:
                return SBytes(list(obj.encode(*args)))
            except UnicodeEncodeError:
                raise err("UnicodeEncodeError")
        if name in ("format",):
            return "<fmt>"
        r = builtins.getattr(obj, name)(*args, **kw)
        return r
    if isinstance(obj, list):
        if name == "append":
            obj.append(args[0])
            return None
        if name == "count":
            rs = [eng.compare(ast.Eq(), x, args[0]) for x in obj]
            if all(isinstance(r, bool) for r in rs):
                return sum(rs)
            acc = 0
            for r in rs:
                acc = eng.binop(ast.Add(), acc, eng.toint(r) if is_sym(r) else int(r))
            return acc
        if name == "insert" and not is_sym(args[0]):
            obj.insert(args[0], args[1])
            return None
        if name in ("extend", "pop", "clear", "copy", "reverse", "index"):
            if any(is_sym(a) for a in args):
                raise Unsupported("list.%s symbolic" % name)
            return builtins.getattr(obj, name)(*args)
    if isinstance(obj, dict):
        if name == "get":
            k = args[0]
            if is_sym(k):
                raise Unsupported("symbolic dict key")
            return obj.get(k, args[1] if len(args) > 1 else kw.get("default"))
        if name in ("keys", "values", "items", "copy"):
            return list(builtins.getattr(obj, name)()) if name != "copy" else dict(obj)
        if name == "update":
            obj.update(*args, **kw)
            return None
        if name in ("pop", "setdefault"):
            return builtins.getattr(obj, name)(*args)
    if isinstance(obj, (set, frozenset)) and not any(is_sym(a) for a in args):
        return builtins.getattr(obj, name)(*args)
    if isinstance(obj, tuple) and not any(is_sym(a) for a in args):
        return builtins.getattr(obj, name)(*args)
    if is_sym(obj) or isinstance(obj, int):
        if name == "to_bytes":
            size = args[0] if args else kw["length"]
            order = args[1] if len(args) > 1 else kw.get("byteorder", "big")
            return to_bytes(eng, obj, size, order, kw.get("signed", False))
        if name == "bit_length":
            return bit_length(eng, obj)
    if isinstance(obj, CrcVal) and name == "to_bytes":
        return to_bytes(eng, obj, args[0], args[1] if len(args) > 1 else kw.get("byteorder", "big"))
    if isinstance(obj, Rope):
        from vf.pysym import ropes

        return ropes.call_method(eng, obj, name, args, kw)
    if isinstance(obj, ModelRaise) and name == "with_traceback":
        return obj
    if isinstance(obj, re.Pattern) and name in ("match", "fullmatch") and args and is_sym(args[0]):
        from vf.pysym import rxdom

        return rxdom.pattern_match(eng, obj, args[0], full=(name == "fullmatch"))
    if obj is sys.stdout or obj is sys.stderr:
        return None  # printed text is not the subject
    if isinstance(obj, type) and obj is int and name == "from_bytes":
        return from_bytes(eng, args[0], args[1] if len(args) > 1 else kw.get("byteorder", "big"))
    # generic: resolve attribute then call
    f = getattr(eng, obj, name)
    return eng.call_value(f, args, kw)


def ctx_enter(eng, m):
    if isinstance(m, SObj):
        r = m.cls.find("__enter__")
        return eng.call_function(r[1], [m], {}) if r else m
    if isinstance(m, Native) and hasattr(m, "__enter__"):
        return m.__enter__(eng)
    return m


def ctx_exit(eng, m, exc=None):
    a = [None, None, None] if exc is None else [ExcClassRef(exc.name, exc.cls) if exc.cls else exc.name, exc, None]
    if isinstance(m, SObj):
        r = m.cls.find("__exit__")
        if r:
            return eng.call_function(r[1], [m] + a, {})
        return None
    if isinstance(m, Native) and hasattr(m, "__exit__"):
        return m.__exit__(eng, *a)
    return None


# ------------------------------------------------------------------------------------ native calls
def _len(eng, o):
    if isinstance(o, SBytes) and any(type(x).__name__ == "Tok" for x in o.items):
        from vf.pysym import tokens

        return tokens.byte_len(eng, o.items)
    if isinstance(o, SBytes) and any(isinstance(x, Native) and hasattr(x, "n") for x in o.items):
        n = 0
        for x in o.items:
            n = eng.binop(ast.Add(), n, x.n if (isinstance(x, Native) and hasattr(x, "n")) else 1)
        return n
    if isinstance(o, (SBytes, SStr, list, tuple, dict, str, set, bytes)):
        return len(o)
    if isinstance(o, Rope):
        return o.length()
    if isinstance(o, SObj):
        return eng.method(o, "__len__")
    if isinstance(o, Native):
        return o.length(eng)
    raise ModelRaise("TypeError", cls=TypeError)


def _minmax(eng, args, ismin):
    if len(args) == 1:
        args = list(args[0])
    if not args:
        raise ModelRaise("ValueError", cls=ValueError)
    acc = args[0]
    for x in args[1:]:
        if not is_sym(acc) and not is_sym(x):
            acc = min(acc, x) if ismin else max(acc, x)
        else:
            c = eng.compare(ast.LtE() if ismin else ast.GtE(), acc, x)
            acc = eng.ite(c, acc, x)
    return acc


def _isinstance(eng, o, t):
    ts = t if isinstance(t, tuple) else (t,)
    for x in ts:
        if isinstance(x, SClass):
            if isinstance(o, Native) and x.real is not None and any(
                    isinstance(t_, type) and issubclass(t_, x.real) for t_ in builtins.getattr(o, "isa", ())):
                return True
            if isinstance(o, SObj):
                c, stack = o.cls, [o.cls]
                while stack:
                    c = stack.pop()
                    if c is x:
                        return True
                    stack.extend(c.bases)
            continue
        if isinstance(x, ExcClassRef):
            if isinstance(o, ModelRaise) and o.cls is not None and issubclass(o.cls, x.real):
                return True
            continue
        if x in (bytes, bytearray, memoryview):
            if isinstance(o, (SBytes, Rope)):
                return True
            continue
        if x is int:
            if (is_sym(o) and not z3.is_bool(o)) or (isinstance(o, int)):
                return True
            continue
        if x is bool:
            if isinstance(o, bool) or z3.is_bool(o):
                return True
            continue
        if x is str:
            if isinstance(o, (str, SStr)):
                return True
            continue
        if x is io.BytesIO or x is io.IOBase or x is io.BufferedIOBase:
            if isinstance(o, SFile):
                return True
            if isinstance(o, Native) and x in builtins.getattr(o, "isa", ()):
                return True
            continue
        if isinstance(x, type):
            if isinstance(o, Native) and x in builtins.getattr(o, "isa", ()):
                return True
            if not isinstance(o, (SObj, SBytes, Rope, SStr, SFile, Native)) and not is_sym(o) and isinstance(o, x):
                return True
            continue
        raise Unsupported("isinstance against %r" % (x,))
    return False


def call_native(eng, fn, args, kw):
    if isinstance(fn, tuple) and fn and fn[0] == "boundnative":
        return call_method(eng, fn[1], fn[2], args, kw)
    if isinstance(fn, tuple) and fn and fn[0] == "nativemethod":
        return builtins.getattr(fn[1], fn[2])(eng, *args, **kw)
    key = id(fn)
    h = NATIVE.get(key)
    if h is not None:
        return h(eng, *args, **kw)
    if isinstance(fn, type) and issubclass(fn, BaseException):
        return ModelRaise(fn.__name__, args, cls=fn)
    slf_ = builtins.getattr(fn, "__self__", None)
    if builtins.getattr(eng, "path_cwd", None) is not None and isinstance(slf_, type) and builtins.getattr(fn, "__name__", "") == "cwd":
        return eng.path_cwd
    if _pure(fn) and all(_concrete(a) for a in args) and all(_concrete(v) for v in kw.values()):
        try:
            return eng.wrap_real(fn(*[_unlift(a) for a in args], **kw))
        except Exception as e:  # noqa  the pure callee itself raised: propagate as a modelled exception
            raise ModelRaise(type(e).__name__, e.args, cls=type(e))
    if callable(fn) and isinstance(fn, Native):
        return fn(eng, *args, **kw)
    name = builtins.getattr(fn, "__qualname__", None) or builtins.getattr(fn, "__name__", repr(fn))
    raise Unsupported("call of %s" % name)


def _bytes(eng, *args):
    if not args:
        return eng.mkbytes(b"")
    a = args[0]
    if isinstance(a, (SBytes,)):
        return SBytes(a.items)
    if isinstance(a, Rope):
        return Rope(a.segs)
    if isinstance(a, int) or is_sym(a):
        if eng.bytes_domain == "rope":
            return Rope([("PAD", 0, a)])
        if is_sym(a):
            n = len(eng.sym_range(a))
            return SBytes([0] * n)
        return SBytes([0] * a)
    if isinstance(a, (list, tuple)):
        return SBytes(list(a))
    if isinstance(a, str):
        return SBytes(list(a.encode(args[1])))
    if isinstance(a, SObj):
        return eng.method(a, "__bytes__")
    raise Unsupported("bytes(%r)" % type(a).__name__)


def _bytearray(eng, *args):
    if args and (isinstance(args[0], int) or is_sym(args[0])) and eng.bytes_domain == "rope":
        return Rope([("ZERO", 0, args[0])])
    r = _bytes(eng, *args)
    if isinstance(r, SBytes):
        r.mutable = True
    return r


def _int(eng, x=0, base=10):
    if isinstance(x, str):
        try:
            return int(x, base)
        except ValueError:
            raise err("ValueError")
    if z3.is_bool(x):
        return eng.toint(x)
    if is_sym(x) and z3.is_string(x):
        if eng.branch(z3.Not(z3.InRe(x, z3.Plus(z3.Range(z3.StringVal("0"), z3.StringVal("9")))))):
            raise err("ValueError")  # only plain decimal digit strings are modelled
        return z3.StrToInt(x)
    if is_sym(x) and z3.is_real(x):
        from vf.pysym import sfloat

        return sfloat.to_int(eng, x)
    if isinstance(x, float):
        return int(x)
    if isinstance(x, CrcVal):
        return crc_term(eng, x)
    if x is None or isinstance(x, (SBytes, list, dict)):
        raise ModelRaise("TypeError", ["int() argument must be a string, a bytes-like object or a real number"], cls=TypeError)
    return x


def _range(eng, *args):
    if all(not is_sym(a) for a in args):
        return range(*args)
    if len(args) == 1:
        return eng.lazy_range(args[0])
    if len(args) == 2 and not is_sym(args[0]):
        return eng.lazy_range(args[1], args[0])
    raise Unsupported("range with symbolic start/step")


def _reduce(eng, fn, seq, *init):
    it = eng.iterate(seq)
    if init:
        acc = init[0]
    else:
        if not it:
            raise ModelRaise("TypeError", cls=TypeError)
        acc, it = it[0], it[1:]
    for x in it:
        acc = eng.call_value(fn, [acc, x])
    return acc


def _sum(eng, seq, start=0):
    acc = start
    for x in eng.iterate(seq):
        acc = eng.binop(ast.Add(), acc, x)
    return acc


def _any(eng, seq):
    for x in eng.iterate(seq):
        if eng.branch(eng.truth(x)):
            return True
    return False


def _all(eng, seq):
    for x in eng.iterate(seq):
        if not eng.branch(eng.truth(x)):
            return False
    return True


def _ord(eng, b):
    if isinstance(b, (SBytes,)):
        if len(b) != 1:
            raise ModelRaise("TypeError", cls=TypeError)
        if type(b.items[0]).__name__ == "Tok":
            raise ModelRaise("Desync")
        return b.items[0]
    if isinstance(b, SStr):
        if len(b) != 1:
            raise ModelRaise("TypeError", cls=TypeError)
        return b.cps[0]
    if isinstance(b, str):
        return ord(b)
    raise ModelRaise("TypeError", cls=TypeError)


def _hasattr(eng, o, name):
    try:
        getattr(eng, o, name)
        return True
    except ModelRaise:
        return False


def _getattr(eng, o, name, *default):
    try:
        return getattr(eng, o, name)
    except ModelRaise:
        if default:
            return default[0]
        raise


def _map(eng, fn, *seqs):
    its = [eng.iterate(s) for s in seqs]
    return [eng.call_value(fn, list(xs)) for xs in zip(*its)]


def _filter(eng, fn, seq):
    out = []
    for x in eng.iterate(seq):
        if eng.branch(eng.truth(eng.call_value(fn, [x]) if fn is not None else x)):
            out.append(x)
    return out


def _crc32(eng, data, value=0, blocksize=None):
    prev = value.items if isinstance(value, CrcVal) else []
    if not isinstance(value, CrcVal) and not (isinstance(value, int) and value == 0):
        raise Unsupported("crc continuation from a non-abstract value")
    if isinstance(data, Rope):
        from vf.pysym import ropes

        return ropes.RopeCrc(prev_segs(value) + list(data.segs))
    return CrcVal(list(prev) + list(data.items))


def prev_segs(value):
    from vf.pysym import ropes

    return list(value.segs) if isinstance(value, ropes.RopeCrc) else []


def _and(eng, a, b):
    return eng.binop(ast.BitAnd(), a, b)


def _or(eng, a, b):
    return eng.binop(ast.BitOr(), a, b)


def _list(eng, *a):
    return list(eng.iterate(a[0])) if a else []


def _str(eng, *a):
    if not a:
        return ""
    if isinstance(a[0], (str, int, bool)) or a[0] is None:
        return str(a[0])
    if isinstance(a[0], SStr):
        return a[0]
    if is_sym(a[0]):
        return StrOf(a[0])
    return "<str>"


def _enumerate(eng, seq, start=0):
    return list(enumerate(eng.iterate(seq), start))


def _zip(eng, *seqs):
    return list(zip(*[eng.iterate(s) for s in seqs]))


def _memoryview(eng, x):
    if isinstance(x, Rope):
        return Rope(x.segs)
    if isinstance(x, SBytes):
        return SBytes(x.items)
    raise Unsupported("memoryview")


def _bytesio(eng, *args):
    if args:
        a = args[0]
        if isinstance(a, Rope):
            from vf.pysym import ropes

            return ropes.RopeFile(a)
        return SFile(a.items)
    return SFile()


import pathlib
import posixpath
import re

import platform as _platform

_PURE_FUNCS = {_platform.python_implementation, _platform.system, pathlib.Path, pathlib.PurePosixPath, pathlib.PurePath, pathlib.PosixPath, os.fspath, os.path.join,
               os.path.basename, os.path.dirname, os.path.commonprefix, os.path.commonpath, os.path.relpath, re.match, re.compile, os.path.splitext, os.path.isabs, os.path.normpath, posixpath.join,
               str.startswith, str.endswith}
_PURE_PATH_METHODS = {"as_posix", "joinpath", "is_absolute", "relative_to", "with_name", "with_suffix", "__str__",
                      "__truediv__", "__fspath__", "match", "is_relative_to"}


def _pure(fn):
    try:
        if fn in _PURE_FUNCS:
            return True
    except TypeError:
        return False
    slf = builtins.getattr(fn, "__self__", None)
    if isinstance(slf, type) and issubclass(slf, pathlib.PurePath) and fn.__name__ == "cwd":
        return True
    if isinstance(slf, pathlib.PurePath) and fn.__name__ in _PURE_PATH_METHODS:
        return True
    if isinstance(slf, str):
        return True
    return False


def _concrete(a):
    if isinstance(a, SBytes):
        return a.concrete()
    if isinstance(a, (list, tuple)):
        return all(_concrete(x) for x in a)
    return isinstance(a, (str, int, float, bytes, pathlib.PurePath)) or a is None


def _unlift(a):
    if isinstance(a, SBytes):
        return a.tobytes()
    if isinstance(a, list):
        return [_unlift(x) for x in a]
    if isinstance(a, tuple):
        return tuple(_unlift(x) for x in a)
    return a


NATIVE = {}


def reg(fn, h):
    NATIVE[id(fn)] = h


reg(len, _len)
reg(ord, _ord)
reg(min, lambda eng, *a, **k: _minmax(eng, a, True))
reg(max, lambda eng, *a, **k: _minmax(eng, a, False))
reg(isinstance, _isinstance)
reg(bytes, _bytes)
reg(bytearray, _bytearray)
reg(memoryview, _memoryview)
reg(int, _int)
reg(bool, lambda eng, x=False: eng.truth(x))
reg(range, _range)
reg(enumerate, _enumerate)
reg(zip, _zip)
reg(list, _list)
reg(tuple, lambda eng, *a: tuple(eng.iterate(a[0])) if a else ())
reg(set, lambda eng, *a: set(eng.iterate(a[0])) if a else set())
reg(dict, lambda eng, *a, **k: dict(*a, **k))
reg(str, _str)
reg(repr, lambda eng, x: "<repr>")
reg(sum, _sum)
reg(any, _any)
reg(all, _all)
reg(map, _map)
reg(filter, _filter)
reg(sorted, lambda eng, seq, **k: sorted(eng.iterate(seq), **k))
reg(reversed, lambda eng, seq: list(reversed(eng.iterate(seq))))
reg(hasattr, _hasattr)
reg(builtins.getattr, _getattr)
reg(abs, lambda eng, x: abs(x) if not is_sym(x) else eng.ite(eng.compare(ast.Lt(), x, 0), eng.binop(ast.Sub(), 0, x), x))
reg(functools.reduce, _reduce)
reg(operator.and_, _and)
reg(operator.or_, _or)
reg(struct.pack, struct_pack)
reg(struct.unpack, struct_unpack)
reg(binascii.unhexlify, lambda eng, s: SBytes(list(binascii.unhexlify(s))))
reg(io.BytesIO, _bytesio)
reg(int.from_bytes, lambda eng, b, byteorder="big", **k: from_bytes(eng, b, byteorder))
reg(print, lambda eng, *a, **k: None)
reg(sys.exc_info, lambda eng: (builtins.getattr(builtins.getattr(eng, "current_exc", None), "cls", None),
                               builtins.getattr(eng, "current_exc", None), None))

# ---- stat module (pure bit tests on the mode word)
import stat as _stat


def _fmt_is(v):
    return lambda eng, m: eng.compare(ast.Eq(), eng.binop(ast.BitAnd(), m, 0o170000), v)


reg(_stat.S_IFMT, lambda eng, m: eng.binop(ast.BitAnd(), m, 0o170000))
reg(_stat.S_IMODE, lambda eng, m: eng.binop(ast.BitAnd(), m, 0o7777))
reg(_stat.S_ISLNK, _fmt_is(0o120000))
reg(_stat.S_ISDIR, _fmt_is(0o040000))
reg(_stat.S_ISREG, _fmt_is(0o100000))
reg(_stat.S_ISSOCK, _fmt_is(0o140000))
reg(_stat.S_ISFIFO, _fmt_is(0o010000))
reg(_stat.S_ISCHR, _fmt_is(0o020000))
reg(_stat.S_ISBLK, _fmt_is(0o060000))


def _next(eng, it, *default):
    if hasattr(it, "__next__") and not isinstance(it, (list, tuple)):
        # a real iterator object (made by iter() below, or a generator): it keeps its position
        try:
            return it.__next__()
        except StopIteration:
            if default:
                return default[0]
            raise ModelRaise("StopIteration", cls=StopIteration)
    xs = eng.iterate(it)
    if xs:
        return xs[0]
    if default:
        return default[0]
    raise ModelRaise("StopIteration", cls=StopIteration)


reg(next, _next)
reg(iter, lambda eng, x: x if hasattr(x, "__next__") else iter(eng.iterate(x)))
