"""IEEE-754 double arithmetic as linear mixed integer/real arithmetic (per-binade rounding model).

Each float operation computes the exact real result x and then rounds: r = m * 2^(e-52) (m integer),
|r - x| <= 2^(e-53), 2^e <= |r| <= 2^(e+1), with e ranging over the binades that interval analysis allows;
ties are nondeterministic.  The grid constraint itself is relaxed away (only |r - x| <= half an ulp is kept, plus the fact
that doubles >= 2^53 are integers), which leaves pure linear real arithmetic – a sound over-approximation that the
solver decides in milliseconds; the exact grid model needed minutes on the binade where the 5 microsecond bound is tight.  Chosen because QF_FP with
division does not finish on any solver here and the relative-error model is too coarse (see DESIGN.md §2.2)."""
from __future__ import annotations

import ast
import math
from fractions import Fraction

import z3

from vf.pysym.values import Inconclusive, Unsupported, is_sym


def _bnd(eng):
    return eng.__dict__.setdefault("fbounds", {})


def interval(eng, x):
    """(lo, hi) as Fractions for a float/real/int value"""
    if isinstance(x, (int, float)):
        f = Fraction(x)
        return (f, f)
    if z3.is_real(x):
        b = _bnd(eng).get(x.get_id())
        if b is None:
            raise Inconclusive("float term without a tracked interval")
        return b[1], b[2]
    iv = eng.ival(x)
    if iv is None:
        raise Inconclusive("int operand of a float operation without a known range")
    return (Fraction(iv[0]), Fraction(iv[1]))


def as_real(x):
    if isinstance(x, (int, float)):
        f = Fraction(x)
        return z3.RealVal(str(f.numerator)) / z3.RealVal(str(f.denominator)) if f.denominator != 1 else z3.RealVal(str(f.numerator))
    if z3.is_int(x):
        return z3.ToReal(x)
    return x


def declare(eng, name, lo, hi):
    """a symbolic double in [lo, hi] (lo > 0): an arbitrary real rounded to the double grid"""
    raw = z3.Real(name + "!raw")
    eng.assume(z3.And(raw >= as_real(lo), raw <= as_real(hi)))
    _bnd(eng)[raw.get_id()] = (raw, Fraction(lo), Fraction(hi))
    return rnd(eng, raw, Fraction(lo), Fraction(hi), name)


def _flog2(q):
    """floor(log2(q)) for a positive Fraction, exactly"""
    q = Fraction(q)
    e = q.numerator.bit_length() - q.denominator.bit_length()
    while Fraction(2) ** e > q:
        e -= 1
    while Fraction(2) ** (e + 1) <= q:
        e += 1
    return e


def rnd(eng, x, lo, hi, name=None):
    """round-to-nearest double of the real term x known to lie in [lo, hi]"""
    n = eng.__dict__.setdefault("_fcount", [0])
    n[0] += 1
    nm = name or ("fl!%d" % n[0])
    if lo <= 0 <= hi or hi < 0:
        raise Unsupported("rounding model needs a positive interval (got [%s, %s])" % (float(lo), float(hi)))
    r = z3.Real(nm)
    # x in [lo, hi] rounds into [2^floor(log2 lo), 2^(floor(log2 hi)+1)]; case e admits r = 2^(e+1), so these binades suffice
    e0 = _flog2(lo)
    e1 = _flog2(hi)
    cases = []
    for e in range(e0, e1 + 1):
        ulp = Fraction(2) ** (e - 52)
        U = as_real(ulp)
        # relaxation: the grid constraint r = m * ulp is dropped (only the half-ulp error bound is kept); the one
        # consequence of the grid that matters here – doubles >= 2^53 are integers – is applied in to_int()/binop()
        cases.append(z3.And(r - x <= U / 2, x - r <= U / 2,
                            as_real(Fraction(2) ** e) <= r, r <= as_real(Fraction(2) ** (e + 1))))
    eng.assume(z3.Or(*cases))
    slack = Fraction(2) ** (e1 - 52)
    _bnd(eng)[r.get_id()] = (r, lo - slack, hi + slack)
    return r


def binop(eng, t, a, b):
    (alo, ahi), (blo, bhi) = interval(eng, a), interval(eng, b)
    A, B = as_real(a), as_real(b)
    # an int operand is converted to double first (rounds above 2^53) – unless it is the truncation of a double that
    # was itself >= 2^53, hence already on the grid
    exact = eng.__dict__.get("float_exact_ints", set())
    if is_sym(a) and z3.is_int(a) and max(abs(alo), abs(ahi)) >= 2 ** 53 and a.get_id() not in exact:
        A = rnd(eng, A, alo, ahi)
    if is_sym(b) and z3.is_int(b) and max(abs(blo), abs(bhi)) >= 2 ** 53 and b.get_id() not in exact:
        B = rnd(eng, B, blo, bhi)
    if t is ast.Add:
        x, lo, hi = A + B, alo + blo, ahi + bhi
    elif t is ast.Sub:
        x, lo, hi = A - B, alo - bhi, ahi - blo
    elif t is ast.Mult:
        if is_sym(a) and is_sym(b):
            raise Unsupported("float symbolic*symbolic")
        ps = [alo * blo, alo * bhi, ahi * blo, ahi * bhi]
        x, lo, hi = A * B, min(ps), max(ps)
    elif t is ast.Div:
        if is_sym(b):
            raise Unsupported("float division by a symbolic value")
        ps = [alo / blo, ahi / blo]
        x, lo, hi = A / B, min(ps), max(ps)
    else:
        raise Unsupported("float op %s" % t.__name__)
    return rnd(eng, x, lo, hi)


def to_int(eng, x):
    """int(float): truncation toward zero (positive interval)"""
    lo, hi = interval(eng, x)
    if lo < 0:
        raise Unsupported("int() of a possibly negative float")
    n = eng.__dict__.setdefault("_fcount", [0])
    n[0] += 1
    k = z3.Int("trunc!%d" % n[0])
    if lo >= 2 ** 53:
        # a double of this magnitude is an integer: truncation is exact and the result converts back exactly
        eng.assume(z3.ToReal(k) == x)
        eng.__dict__.setdefault("float_exact_ints", set()).add(k.get_id())
        eng.__dict__.setdefault("_keep", []).append(k)
    else:
        eng.assume(z3.And(z3.ToReal(k) <= x, x < z3.ToReal(k) + 1))
    eng.ranges["trunc!%d" % n[0]] = (math.floor(lo), math.floor(hi) + 1)
    return k
