"""IEEE-754 double arithmetic as linear mixed integer/real arithmetic (per-binade rounding model).

Each float operation computes the exact real result x and then rounds: r = m * 2^(e-52) (m integer),
|r - x| <= 2^(e-53), 2^e <= |r| <= 2^(e+1), with e ranging over the binades that interval analysis allows;
ties are nondeterministic (a sound over-approximation of round-to-nearest-even).  Chosen because QF_FP with
division does not finish on any solver here and the relative-error model is too coarse (see DESIGN.md §2.2)."""
from __future__ import annotations

import ast
import math
from fractions import Fraction

import z3

from vf.pysym.values import Inconclusive, Unsupported, is_sym


def _bnd(eng):
    return eng.__dict__.setdefault("fbounds", {})


def interval(eng, x):
    """(lo, hi) as Fractions for a float/real/int value"""
    if isinstance(x, (int, float)):
        f = Fraction(x)
        return (f, f)
    if z3.is_real(x):
        b = _bnd(eng).get(x.get_id())
        if b is None:
            raise Inconclusive("float term without a tracked interval")
        return b[1], b[2]
    iv = eng.ival(x)
    if iv is None:
        raise Inconclusive("int operand of a float operation without a known range")
    return (Fraction(iv[0]), Fraction(iv[1]))


def as_real(x):
    if isinstance(x, (int, float)):
        f = Fraction(x)
        return z3.RealVal(str(f.numerator)) / z3.RealVal(str(f.denominator)) if f.denominator != 1 else z3.RealVal(str(f.numerator))
    if z3.is_int(x):
        return z3.ToReal(x)
    return x


def declare(eng, name, lo, hi):
    """a symbolic double in [lo, hi] (lo > 0): an arbitrary real rounded to the double grid"""
    raw = z3.Real(name + "!raw")
    eng.assume(z3.And(raw >= as_real(lo), raw <= as_real(hi)))
    _bnd(eng)[raw.get_id()] = (raw, Fraction(lo), Fraction(hi))
    return rnd(eng, raw, Fraction(lo), Fraction(hi), name)


def rnd(eng, x, lo, hi, name=None):
    """round-to-nearest double of the real term x known to lie in [lo, hi]"""
    n = eng.__dict__.setdefault("_fcount", [0])
    n[0] += 1
    nm = name or ("fl!%d" % n[0])
    if lo <= 0 <= hi or hi < 0:
        raise Unsupported("rounding model needs a positive interval (got [%s, %s])" % (float(lo), float(hi)))
    r, m = z3.Real(nm), z3.Int(nm + "!m")
    e0 = math.floor(math.log2(lo)) - 1
    e1 = math.floor(math.log2(hi)) + 1
    cases = []
    for e in range(e0, e1 + 1):
        ulp = Fraction(2) ** (e - 52)
        U = as_real(ulp)
        cases.append(z3.And(r == z3.ToReal(m) * U, r - x <= U / 2, x - r <= U / 2,
                            as_real(Fraction(2) ** e) <= r, r <= as_real(Fraction(2) ** (e + 1))))
    eng.assume(z3.Or(*cases))
    slack = Fraction(2) ** (e1 - 52)
    _bnd(eng)[r.get_id()] = (r, lo - slack, hi + slack)
    return r


def binop(eng, t, a, b):
    (alo, ahi), (blo, bhi) = interval(eng, a), interval(eng, b)
    A, B = as_real(a), as_real(b)
    # an int operand is converted to double first (rounds above 2^53)
    if is_sym(a) and z3.is_int(a) and max(abs(alo), abs(ahi)) >= 2 ** 53:
        A = rnd(eng, A, alo, ahi)
    if is_sym(b) and z3.is_int(b) and max(abs(blo), abs(bhi)) >= 2 ** 53:
        B = rnd(eng, B, blo, bhi)
    if t is ast.Add:
        x, lo, hi = A + B, alo + blo, ahi + bhi
    elif t is ast.Sub:
        x, lo, hi = A - B, alo - bhi, ahi - blo
    elif t is ast.Mult:
        if is_sym(a) and is_sym(b):
            raise Unsupported("float symbolic*symbolic")
        ps = [alo * blo, alo * bhi, ahi * blo, ahi * bhi]
        x, lo, hi = A * B, min(ps), max(ps)
    elif t is ast.Div:
        if is_sym(b):
            raise Unsupported("float division by a symbolic value")
        ps = [alo / blo, ahi / blo]
        x, lo, hi = A / B, min(ps), max(ps)
    else:
        raise Unsupported("float op %s" % t.__name__)
    return rnd(eng, x, lo, hi)


def to_int(eng, x):
    """int(float): truncation toward zero (positive interval)"""
    lo, hi = interval(eng, x)
    if lo < 0:
        raise Unsupported("int() of a possibly negative float")
    n = eng.__dict__.setdefault("_fcount", [0])
    n[0] += 1
    k = z3.Int("trunc!%d" % n[0])
    eng.assume(z3.And(z3.ToReal(k) <= x, x < z3.ToReal(k) + 1))
    eng.ranges["trunc!%d" % n[0]] = (math.floor(lo), math.floor(hi) + 1)
    return k
