"""NUMBER token summary (assume/guarantee on lemma L0, proved by the C17 obligations on the real codec):
a written NUMBER is one opaque token N(v) in the byte stream, reading it back yields v.  Used by the section-level
(L1/L2) obligations so that a header with k NUMBER fields does not cost 9^k magnitude-class paths.
The byte length of a token is deliberately not modelled; `tell()` on a tokenised file is an arbitrary value."""
from __future__ import annotations

from vf.pysym import models
from vf.pysym.values import FuncRef, ModelRaise, SBytes, SFile, is_sym


class Tok:
    __slots__ = ("value",)

    def __init__(self, value):
        self.value = value

    def __repr__(self):
        return "N(%s)" % (self.value,)


class Desync(Exception):
    pass


def install(eng, modules=(("py7zr.archiveinfo", "write_uint64", "read_uint64"),)):
    """replace the NUMBER primitives of the given modules by the token summary"""
    for mod, wname, rname in modules:
        m = eng.load(mod)
        real_read = m["funcs"][rname]
        if wname:
            eng.overrides[(mod, wname)] = _writer
        eng.overrides[(mod, rname)] = _reader(eng, real_read)


def _writer(eng, file, value):
    if value is None or isinstance(value, (str, SBytes)):
        raise ModelRaise("TypeError", cls=TypeError)
    models.call_method(eng, file, "write", [SBytes([Tok(value)])], {})
    return None


def _reader(eng, real_read):
    def rd(eng, file):
        b = models.call_method(eng, file, "read", [1], {})
        if len(b) == 1 and isinstance(b.items[0], Tok):
            return b.items[0].value
        # raw byte(s) where a NUMBER is expected (e.g. the kDummy size, or a reference-written header in bytes):
        # un-read and run the real decoder on them
        if len(b) == 1:
            models.call_method(eng, file, "seek", [-1, 1], {})
        key = (real_read.module, real_read.qualname)
        ov = eng.overrides.pop(key)
        try:
            return eng.call_function(real_read, [file], {})
        finally:
            eng.overrides[key] = ov

    return rd


def has_tok(items):
    return any(isinstance(x, Tok) for x in items)


def numlen(eng, v):
    """byte length of the NUMBER encoding of v: exact for concrete v, otherwise an uninterpreted value in 1..9
    (same v -> same length)"""
    import z3

    if not is_sym(v):
        v = int(v)
        if v < 0x80:
            return 1
        if v > 0xFFFFFFFFFFFFFF:
            return 9
        n = (v.bit_length() + 7) // 8
        hb = v >> (8 * (n - 1))
        return n if hb < (2 << (8 - n - 1)) else n + 1
    if eng.intmode == "bv":
        f = z3.Function("numlen", z3.BitVecSort(eng.W), z3.BitVecSort(eng.W))
        t = f(v)
        eng.add_axiom(z3.And(z3.UGE(t, 1), z3.ULE(t, 9)))
        return eng._rec(t, hi=9)
    eng.ranges["numlen"] = (1, 9)
    f = z3.Function("numlen", z3.IntSort(), z3.IntSort())
    t = f(v)
    eng.add_axiom(z3.And(t >= 1, t <= 9))
    return t


def byte_len(eng, items):
    """length in bytes of a list of byte items and NUMBER tokens"""
    import ast

    n = 0
    for x in items:
        n = eng.binop(ast.Add(), n, numlen(eng, x.value) if isinstance(x, Tok) else 1)
    return n
