"""Path domain: member names as lists of symbolic components over a small alphabet; pathlib's pure-path parsing,
parts, joinpath, relative_to, is_absolute modelled on them (validated against real PurePosixPath at start-up)."""
from __future__ import annotations

import ast
import pathlib

import z3

from vf.pysym.models import Native
from vf.pysym.values import ModelRaise, Unsupported, is_sym

NAMES = ["", ".", "..", "a", "b", "c:", "dafj08sajfa", "foo", "boo", "fuga", "hoge", "a90sufoiasj09", "jail", "x"]
CODE = {n: i for i, n in enumerate(NAMES)}
ROOT, ROOT2 = 100, 101  # '/' and '//' anchors
CODE["/"] = ROOT
CODE["//"] = ROOT2
ALPHA = 7  # symbolic components range over NAMES[0:ALPHA]


class C(Native):
    """one path component / part"""

    def __init__(self, code):
        self.code = code

    def path_code(self):
        return self.code

    def __repr__(self):
        return "C(%s)" % (self.code,)


def code_of(x):
    if isinstance(x, C):
        return x.code
    if isinstance(x, str):
        if x not in CODE:
            raise Unsupported("component %r outside the alphabet" % x)
        return CODE[x]
    raise Unsupported("code_of %r" % (x,))


def ceq(eng, a, b):
    return eng.compare(ast.Eq(), code_of(a), code_of(b))


class SName(Native):
    """the string '/'.join(components); components may be '' (so 'a//b', '/a', 'a/' are representable)"""

    def __init__(self, comps):
        self.comps = [c if isinstance(c, C) else C(CODE[c]) for c in comps]

    def startswith(self, eng, lit):
        if isinstance(lit, tuple):
            return any(self.startswith(eng, x) for x in lit)
        if lit == "/":
            return len(self.comps) >= 2 and eng.branch(ceq(eng, self.comps[0], ""))
        if lit == "./":
            return len(self.comps) >= 2 and eng.branch(ceq(eng, self.comps[0], "."))
        raise Unsupported("startswith %r" % (lit,))

    def endswith(self, eng, lit):
        if lit == "/":
            return len(self.comps) >= 2 and eng.branch(ceq(eng, self.comps[-1], ""))
        raise Unsupported("endswith %r" % (lit,))

    def lstrip(self, eng, chars):
        if chars not in ("/", "//"):
            raise Unsupported("lstrip %r" % chars)
        comps = list(self.comps)
        while len(comps) >= 2 and eng.branch(ceq(eng, comps[0], "")):
            comps = comps[1:]
        return SName(comps)

    def getslice(self, eng, lo, hi):
        if lo == 2 and hi is None:  # path[len('./'):] after startswith('./')
            return SName(self.comps[1:])
        if lo is None and hi == -1:  # path[:-1] after endswith('/')
            return SName(self.comps[:-1])
        raise Unsupported("slice of a symbolic name")

    def length(self, eng):
        raise Unsupported("len of a symbolic name")


class SPath(Native):
    isa = (pathlib.PurePath, pathlib.Path)

    def __init__(self, parts):
        self.parts = [p if isinstance(p, C) else C(CODE[p]) for p in parts]

    def get_parts(self, eng):
        return tuple(self.parts)

    def has_root(self):
        return bool(self.parts) and not is_sym(self.parts[0].code) and self.parts[0].code >= ROOT

    def is_absolute(self, eng):
        return self.has_root()

    def joinpath(self, eng, *others):
        cur = self
        for other in others:
            o = to_path(eng, other)
            cur = o if o.has_root() else SPath(cur.parts + o.parts)
        return cur

    def relative_to(self, eng, other):
        other = to_path(eng, other)
        if len(other.parts) > len(self.parts):
            raise ModelRaise("ValueError", cls=ValueError)
        for a, b in zip(self.parts, other.parts):
            if not eng.branch(ceq(eng, a, b)):
                raise ModelRaise("ValueError", cls=ValueError)
        return SPath(self.parts[len(other.parts):])

    def get_parent(self, eng):
        if len(self.parts) > (1 if self.has_root() else 0):
            return SPath(self.parts[:-1])
        return SPath(self.parts)

    def as_posix(self, eng):
        return self


def to_path(eng, x):
    """pathlib.PurePosixPath parsing: leading '/' -> root ('//' exactly two -> '//'), '' and '.' components dropped"""
    if isinstance(x, SPath):
        return x
    if isinstance(x, C):
        return SPath([x])
    if isinstance(x, str):
        x = SName(x.split("/"))
    if isinstance(x, pathlib.PurePath):
        return SPath([("/" if p == "/" else ("//" if p == "//" else p)) for p in x.parts])
    if not isinstance(x, SName):
        raise Unsupported("to_path %r" % (x,))
    comps = x.comps
    parts = []
    if len(comps) >= 2 and eng.branch(ceq(eng, comps[0], "")):
        two = len(comps) >= 3 and eng.branch(ceq(eng, comps[1], ""))
        three = two and len(comps) >= 4 and eng.branch(ceq(eng, comps[2], ""))
        parts.append(C(ROOT2 if (two and not three) else ROOT))
    for c in comps:
        if eng.branch(ceq(eng, c, "")) or eng.branch(ceq(eng, c, ".")):
            continue
        parts.append(c)
    return SPath(parts)


def install(eng, cwd):
    """pathlib.Path(...) and Path.cwd() on symbolic names; comparisons of components with literals"""
    def ctor(e, *args):
        if not args:
            return SPath([])
        if any(isinstance(a, (SName, SPath, C)) for a in args):
            cur = SPath([])
            for a in args:
                cur = cur.joinpath(e, a)
            return cur
        if args and all(isinstance(a, str) for a in args) and all(
                all(p in CODE for p in a.split("/")) for a in args):
            cur = SPath([])
            for a in args:
                cur = cur.joinpath(e, a)
            return cur
        return e.wrap_real(pathlib.Path(*args))

    eng.models.reg(pathlib.Path, ctor)
    eng.path_cwd = cwd
    eng.path_ctor = ctor


def concrete_name(model_eval, comps):
    return "/".join(NAMES[int(model_eval(c.code))] if is_sym(c.code) else NAMES[c.code] for c in comps)
