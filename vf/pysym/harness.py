"""Glue between engine-B explorations and ObResult: decide a post-condition on every path, vacuity twin,
witness extraction, translator validation bookkeeping."""
from __future__ import annotations

import time

import z3

from vf.common import CEX, HOLDS, INCONCLUSIVE, ObResult
from vf.pysym.engine import Engine
from vf.pysym.values import Inconclusive, ModelRaise, is_sym


import os as _os

CROSSCHECK = _os.environ.get("VERIF_CROSSCHECK") == "1"


def model_value(m, t):
    if not is_sym(t):
        return t
    v = m.eval(t, model_completion=True)
    if z3.is_bv_value(v):
        return v.as_long()
    if z3.is_int_value(v):
        return v.as_long()
    if z3.is_true(v):
        return True
    if z3.is_false(v):
        return False
    if z3.is_rational_value(v):
        return float(v.as_fraction())
    return str(v)


def tobool(c):
    return c if is_sym(c) else z3.BoolVal(bool(c))


def conj(cs):
    cs = [tobool(c) for c in cs]
    if not cs:
        return z3.BoolVal(True)
    return z3.And(*cs) if len(cs) > 1 else cs[0]


CROSS_MAX = 25   # decisive queries per obligation handed to the second solver


def second_opinion(eng, pc, goal, r):
    """thorough tier: the decisive 'unsat' of z3 is put to cvc5 as well (SMT-LIB2 text, separate process).
    cvc5 'unsat' = agreement; 'sat' = DISAGREEMENT (the obligation becomes inconclusive); anything else = no answer."""
    import os
    import subprocess
    import tempfile

    if not r.cross:
        r.cross.update({"agree": 0, "disagree": 0, "no_answer": 0})
    cs = r.cross
    if cs["agree"] + cs["disagree"] + cs["no_answer"] >= CROSS_MAX:
        return True
    s = z3.Solver()
    s.add(*pc, *eng.axioms, goal)
    text = "(set-logic ALL)\n" + s.to_smt2().replace("bv2int", "bv2nat")
    fd, path = tempfile.mkstemp(suffix=".smt2", prefix="vf_x_")
    try:
        with os.fdopen(fd, "w") as f:
            f.write(text)
        try:
            out = subprocess.run(["cvc5", "--tlimit=20000", "--strings-exp", path], capture_output=True, text=True, timeout=40).stdout
        except Exception:  # noqa
            out = ""
    finally:
        os.unlink(path)
    first = (out.strip().splitlines() or [""])[0].strip()
    if "(error" in out:
        cs["no_answer"] += 1
    elif first == "unsat":
        cs["agree"] += 1
    elif first == "sat":
        cs["disagree"] += 1
        return False
    else:
        cs["no_answer"] += 1
    return True


def decide(eng: Engine, harness, post, inputs, r: ObResult, describe=None, max_cex=3, sample_every=None):
    """explore `harness`; on every path ask the solver for path ∧ ¬post(result).

    harness(eng) -> observation (any python structure with z3 terms);
    post(obs) -> z3 Bool / bool / list of them that must hold on the path;
    inputs: dict name -> term (for witnesses).
    Fills r (paths, queries, cex, samples, reach_ok) and returns r."""
    t0 = time.time()
    user_harness, user_post = harness, post

    def harness(e):
        try:
            return user_harness(e)
        except ModelRaise as ex:
            # an exception of the interpreted code that the harness did not expect: a failing outcome, not a harness error
            return {"__uncaught__": "%s%s" % (ex.name, str(ex.eargs)[:80])}

    def post(o):
        if isinstance(o, dict) and "__uncaught__" in o:
            return False
        return user_post(o)

    try:
        results = eng.explore(harness)
    except Inconclusive as e:
        r.verdict = INCONCLUSIVE
        r.note = "%s: %s" % (type(e).__name__, e)
        _fill(eng, r, t0)
        return r
    reach = False
    bad = []
    for dec, pc, obs, symdec in results:
        r.paths += 1
        if symdec:
            r.nontrivial += 1
        try:
            p = post(obs)
        except Inconclusive as e:
            r.verdict = INCONCLUSIVE
            r.note = "post: %s" % e
            _fill(eng, r, t0)
            return r
        reach = True  # the harness ran to its end on this path (a rejected input is a meaningful outcome)
        if p is None:  # nothing to assert on this path (e.g. legitimately rejected input)
            continue
        plist = list(p) if isinstance(p, (list, tuple)) else [p]
        cond = conj(plist)
        eng.solver.set("timeout", 8000)
        res, m = eng.check(z3.Not(cond), pc=pc)
        eng.solver.set("timeout", eng.solver_timeout_ms)
        if str(res) == "unknown" and len(plist) == 1:
            res, m = eng.check(z3.Not(cond), pc=pc)  # once more with the full time budget
        if str(res) == "unknown" and len(plist) > 1:
            # decide the conjuncts one by one (each query is much simpler than the conjunction)
            res = z3.unsat
            for ci, cj in enumerate(plist):
                if isinstance(cj, bool):
                    if cj:
                        continue
                    res, m = eng.check(pc=pc)
                else:
                    res, m = eng.check(z3.Not(cj), pc=pc)
                if str(res) == "unknown":
                    r.note = "solver unknown on conjunct %d of %d: %s" % (ci, len(plist), str(cj)[:200])
                    break
                if res == z3.sat:
                    break
        if str(res) == "unknown":
            r.verdict = INCONCLUSIVE
            r.note = r.note or "solver unknown on a post-condition query"
            _fill(eng, r, t0)
            return r
        if res == z3.sat:
            w = {k: model_value(m, v) for k, v in inputs.items()}
            bad.append((w, obs, m))
            if len(bad) >= max_cex:
                break
        elif CROSSCHECK and not second_opinion(eng, pc, z3.Not(cond), r):
            r.verdict = INCONCLUSIVE
            r.note = "second solver (cvc5) answers sat where z3 answered unsat on a post-condition query"
            _fill(eng, r, t0)
            return r
        if len(r.samples) < 3 and (symdec or len(results) == 1):
            _, m2 = eng.check(pc=pc)
            if m2 is not None:
                r.samples.append({"path_decisions": "".join("T" if d else "F" for d in dec)[:80],
                                  "example_input": {k: model_value(m2, v) for k, v in inputs.items()},
                                  "outcome": (describe(obs) if describe and not (isinstance(obs, dict) and "__uncaught__" in obs)
                                              else _short(obs))})
    r.reach_ok = reach
    _fill(eng, r, t0)
    if bad:
        r.verdict = CEX
        r._bad = bad
    else:
        r.verdict = HOLDS
    return r


def brief(x, depth=0):
    """cheap description of an observation (z3's pretty printer is far too slow on large terms)"""
    if is_sym(x):
        t = x.sexpr()
        return t if len(t) < 60 else t[:60] + "…"
    if isinstance(x, dict):
        if depth > 2:
            return "{…}"
        return "{" + ", ".join("%s: %s" % (k, brief(v, depth + 1)) for k, v in list(x.items())[:8]) + "}"
    if isinstance(x, (list, tuple)):
        if depth > 2:
            return "[…]"
        return "[" + ", ".join(brief(v, depth + 1) for v in list(x)[:8]) + (", …" if len(x) > 8 else "") + "]"
    if isinstance(x, (str, int, bool)) or x is None:
        return repr(x)
    return "<%s>" % type(x).__name__


def _short(obs):
    s = brief(obs)
    return s if len(s) < 300 else s[:300] + "…"


def _fill(eng, r, t0):
    r.queries += eng.queries
    r.solver_s += eng.solver_time
    eng.queries = 0
    eng.solver_time = 0.0
    r.functions = sorted(set(r.functions) | eng.touched)
    r.engine = r.engine or "B (pysym: AST interpreter of the real source + z3)"


def guarded_call(eng, fn, *args, **kw):
    """run fn; turn a modelled exception into ('raise', name)"""
    try:
        return ("ok", fn(*args, **kw))
    except ModelRaise as e:
        return ("raise", e.name)
