"""Small-alphabet string domain: a string of concrete length whose characters are symbolic indices into a fixed
alphabet.  str.startswith / lstrip / slicing / os.path.isabs and re.match for simple anchored patterns (taken from the
source through sre_parse) are modelled by forking on characters."""
from __future__ import annotations

import ast
import os
import re

from vf.pysym.models import Native
from vf.pysym.values import Unsupported, is_sym

try:
    import re._parser as sre_parse  # py3.11+
except ImportError:  # pragma: no cover
    import sre_parse


class Ch:
    def __init__(self, idx, alphabet):
        self.idx, self.alphabet = idx, alphabet


class AStr(Native):
    isa = (str,)

    def __init__(self, chars):
        self.chars = list(chars)

    def _is(self, eng, i, lits):
        """char i is one of the literal characters `lits` (fork)"""
        ch = self.chars[i]
        for lit in lits:
            if lit in ch.alphabet and eng.branch(eng.compare(ast.Eq(), ch.idx, ch.alphabet.index(lit))):
                return True
        return False

    def startswith(self, eng, prefix):
        if isinstance(prefix, tuple):
            for p in prefix:
                if self.startswith(eng, p):
                    return True
            return False
        if len(prefix) > len(self.chars):
            return False
        return all(self._is(eng, i, [c]) for i, c in enumerate(prefix))

    def lstrip(self, eng, chars=None):
        i = 0
        while i < len(self.chars) and self._is(eng, i, list(chars)):
            i += 1
        return AStr(self.chars[i:])

    def getslice(self, eng, lo, hi):
        if is_sym(lo) or is_sym(hi):
            raise Unsupported("symbolic slice bounds")
        return AStr(self.chars[lo:hi])

    def length(self, eng):
        return len(self.chars)

    def __str__(self):
        return "<AStr>"


def _match_here(eng, items, s, pos):
    for op, arg in items:
        name = str(op)
        if name == "AT":
            if str(arg) not in ("AT_BEGINNING", "AT_BEGINNING_STRING") or pos != 0:
                raise Unsupported("regex anchor %s" % arg)
            continue
        if pos >= len(s.chars):
            return False
        if name == "LITERAL":
            if not s._is(eng, pos, [chr(arg)]):
                return False
        elif name == "IN":
            lits = []
            for (o2, a2) in arg:
                if str(o2) == "LITERAL":
                    lits.append(chr(a2))
                elif str(o2) == "RANGE":
                    lits += [c for c in s.chars[pos].alphabet if a2[0] <= ord(c) <= a2[1]]
                else:
                    raise Unsupported("regex class item %s" % o2)
            if not s._is(eng, pos, lits):
                return False
        else:
            raise Unsupported("regex op %s" % name)
        pos += 1
    return True


def install(eng):
    def re_match(e, pattern, s, flags=0):
        if isinstance(s, AStr):
            return _match_here(e, list(sre_parse.parse(pattern, flags)), s, 0)
        return re.match(pattern, s, flags)

    eng.models.reg(re.match, re_match)
    eng.models.reg(os.path.isabs, lambda e, s: s.startswith(e, "/") if isinstance(s, AStr) else os.path.isabs(s))
    base_str = eng.models.NATIVE[id(str)]
    eng.models.reg(str, lambda e, *a: a[0] if a and isinstance(a[0], AStr) else base_str(e, *a))
