"""Rope domain: content-abstract byte strings of symbolic length (list of (source, offset, length) segments, Int terms).
Slicing / concatenation / bytearray slice assignment are exact; a cut forks on where it falls (LIA feasibility).
Sound and complete for code that moves bytes without inspecting them (buffering kernels)."""
from __future__ import annotations

import ast

import z3

from vf.pysym.values import ModelRaise, Rope, Unsupported, is_sym


def rope_cut(eng, rope, k):
    """split at byte position k (0 <= k <= len assumed by the caller): (left segs, right segs)"""
    left, right, pos = [], [], 0
    for (src, off, ln) in rope.segs:
        if eng.branch(eng.compare(ast.LtE(), eng.binop(ast.Add(), pos, ln), k)):
            left.append((src, off, ln))
        elif eng.branch(eng.compare(ast.GtE(), pos, k)):
            right.append((src, off, ln))
        else:
            a = eng.binop(ast.Sub(), k, pos)
            left.append((src, off, a))
            right.append((src, eng.binop(ast.Add(), off, a), eng.binop(ast.Sub(), ln, a)))
        pos = eng.binop(ast.Add(), pos, ln)
    return left, right


def rope_slice(eng, rope, lo, hi):
    n = rope.length()
    lo = 0 if lo is None else lo
    hi = n if hi is None else hi
    if eng.branch(eng.compare(ast.Lt(), lo, 0)):
        lo = eng.binop(ast.Add(), lo, n)
        if eng.branch(eng.compare(ast.Lt(), lo, 0)):
            lo = 0
    if eng.branch(eng.compare(ast.Lt(), hi, 0)):
        hi = eng.binop(ast.Add(), hi, n)
        if eng.branch(eng.compare(ast.Lt(), hi, 0)):
            hi = 0
    if eng.branch(eng.compare(ast.Gt(), lo, n)):
        lo = n
    if eng.branch(eng.compare(ast.Gt(), hi, n)):
        hi = n
    if eng.branch(eng.compare(ast.LtE(), hi, lo)):
        return Rope()
    _, r = rope_cut(eng, rope, lo)
    l, _ = rope_cut(eng, Rope(r), eng.binop(ast.Sub(), hi, lo))
    return Rope(l)


def rope_setslice(eng, obj, lo, hi, v):
    """bytearray slice assignment ba[lo:hi] = v (mutates obj)"""
    if not isinstance(v, Rope):
        raise Unsupported("slice assignment of %r into a rope" % type(v).__name__)
    n = obj.length()
    left = rope_slice(eng, obj, 0, 0 if lo is None else lo)
    right = Rope() if hi is None else rope_slice(eng, obj, hi, None)
    # python: when lo > len the data is appended at the end (slice clamping) – rope_slice has clamped already
    obj.segs = left.segs + list(v.segs) + right.segs


def rope_norm(eng, rope):
    """normal form: drop empty segments, merge contiguous ones (forking on contiguity)"""
    out = []
    for (src, off, ln) in rope.segs:
        if eng.branch(eng.compare(ast.Eq(), ln, 0)):
            continue
        if out and out[-1][0] == src and eng.branch(
                eng.compare(ast.Eq(), eng.binop(ast.Add(), out[-1][1], out[-1][2]), off)):
            out[-1] = (src, out[-1][1], eng.binop(ast.Add(), out[-1][2], ln))
        else:
            out.append((src, off, ln))
    return out


def compare(eng, t, a, b):
    if t in (ast.Eq, ast.NotEq):
        if isinstance(a, Rope) and isinstance(b, Rope):
            na, nb = rope_norm(eng, a), rope_norm(eng, b)
            if len(na) != len(nb) or any(x[0] != y[0] for x, y in zip(na, nb)):
                r = False
            else:
                cs = []
                for x, y in zip(na, nb):
                    cs.append(eng.compare(ast.Eq(), x[1], y[1]))
                    cs.append(eng.compare(ast.Eq(), x[2], y[2]))
                cs = [c for c in cs if c is not True]
                r = False if any(c is False for c in cs) else (z3.And(*cs) if cs else True)
            if t is ast.Eq:
                return r
            return (not r) if isinstance(r, bool) else z3.Not(r)
        # rope vs concrete bytes literal: only emptiness is decidable without content
        other = b if isinstance(a, Rope) else a
        rope = a if isinstance(a, Rope) else b
        if hasattr(other, "items") and len(other.items) == 0:
            r = eng.compare(ast.Eq(), rope.length(), 0)
            return r if t is ast.Eq else ((not r) if isinstance(r, bool) else z3.Not(r))
    raise Unsupported("comparison of a content-abstract rope")


def call_method(eng, obj, name, args, kw):
    if name in ("tobytes", "copy", "__bytes__"):
        return Rope(obj.segs)
    if name == "release":
        return None
    raise Unsupported("rope method %s" % name)


class RopeCrc:
    """CRC abstraction over ropes: the identity of the byte sequence hashed so far"""

    def __init__(self, segs):
        self.segs = list(segs)


class RopeFile:
    pass
