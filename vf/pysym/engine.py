"""Engine B: a bounded, path-forking symbolic interpreter over the AST of the real py7zr sources.

* the sources are re-parsed from REPO on every run; module constants are read from the freshly imported modules
* ints are z3 bit-vectors (mode 'bv', width W, magnitude tracking so that Python's unbounded ints are never
  silently wrapped) or z3 Ints (mode 'int', for length/offset arithmetic)
* exploration: depth-first over decision prefixes by re-execution, one incremental solver (push/pop), feasibility
  check at every symbolic branch; loops are unrolled up to `unroll` with an unwinding assertion (Unwind ->
  INCONCLUSIVE, never silently cut)
"""
from __future__ import annotations

import ast
import builtins
import importlib
import inspect
import operator
import os
import time
import types

import z3

from vf.common import REPO
from vf.pysym.values import (BoundMethod, BreakEx, Closure, ContinueEx, ExcClassRef, FuncRef, Inconclusive, ModelRaise,
                             ModRef, PathEnd, ReturnEx, Rope, SBytes, SClass, SFile, SObj, SStr, Unsupported, Unwind,
                             is_sym)

_CMP = {ast.Lt: operator.lt, ast.LtE: operator.le, ast.Gt: operator.gt, ast.GtE: operator.ge, ast.Eq: operator.eq,
        ast.NotEq: operator.ne}
_BIN = {ast.Add: operator.add, ast.Sub: operator.sub, ast.Mult: operator.mul, ast.FloorDiv: operator.floordiv,
        ast.LShift: operator.lshift, ast.RShift: operator.rshift, ast.BitOr: operator.or_, ast.BitAnd: operator.and_,
        ast.BitXor: operator.xor, ast.Mod: operator.mod, ast.Div: operator.truediv, ast.Pow: operator.pow}


class BudgetExceeded(Exception):
    """an input-declared count drives a loop / allocation beyond the budget proportional to the input size"""

    def __init__(self, count):
        super().__init__("count exceeds budget")
        self.count = count
        self.where = None


class Engine:
    def __init__(self, modules=("py7zr.archiveinfo",), intmode="bv", width=80, unroll=8, merge_ifs=False,
                 bytes_domain="vec", solver_timeout_ms=60000, unwind="assert"):
        self.unwind_mode = unwind  # 'assert': hitting the bound is INCONCLUSIVE; 'assume': the path is cut and counted
        self.cut_paths = 0
        self.count_budget = None
        self._defaults = {}
        self.loop_limits = {}  # (module, function qualname) -> (bound, 'assert'|'assume') for its while loops
        self.intmode, self.W, self.unroll, self.merge_ifs, self.bytes_domain = intmode, width, unroll, merge_ifs, bytes_domain
        self.modules = {}  # name -> dict(tree, real, funcs{name:FuncRef}, classes{name:SClass})
        self.solver = z3.Solver()
        self.solver.set("timeout", solver_timeout_ms)
        self.solver_timeout_ms = solver_timeout_ms
        self.queries = 0
        self.solver_time = 0.0
        self.overrides = {}  # (module, qualname) -> callable(engine, *args, **kw)
        self.attr_models = {}  # (type, attr) hooks registered by models
        self.axioms = []
        self._axiom_ids = {}
        self.guards = []
        self.bounds = {}  # z3 term id -> (term, bits)
        self.touched = set()  # qualified names of real functions interpreted
        self.fresh = 0
        self.stats_paths = 0
        self.declared = {}  # name -> (term, bits): every symbolic int carries its declared range as a path assumption
        self.ranges = {}  # Int mode: declaration name -> (lo, hi) used by the interval pre-filter of branch()
        self.in_path = False
        # int subclass without own state: modelled as the integer itself
        self.class_models = {("py7zr.helpers", "ArchiveTimestamp"): lambda eng, x: self.models._int(eng, x)}
        for m in modules:
            self.load(m)
        from vf.pysym import models

        self.models = models

    # ------------------------------------------------------------------ loading
    def load(self, modname):
        if modname in self.modules:
            return self.modules[modname]
        real = importlib.import_module(modname)
        if modname.startswith("py7zr"):
            path = os.path.join(REPO, modname.replace(".", "/") + ".py")
            if os.path.realpath(inspect.getsourcefile(real)) != os.path.realpath(path):
                raise Inconclusive("imported %s is not the file under REPO" % modname)
        else:
            path = inspect.getsourcefile(real)  # reference models living in /verif (e.g. vf.ref7z)
        src = open(path).read()
        tree = ast.parse(src)
        m = dict(tree=tree, real=real, funcs={}, classes={}, src=src)
        self.modules[modname] = m
        for n in tree.body:
            if isinstance(n, ast.FunctionDef):
                m["funcs"][n.name] = FuncRef(modname, n.name, n)
            elif isinstance(n, ast.ClassDef):
                m["classes"][n.name] = self._mkclass(n, modname, getattr(real, n.name, None), n.name)
        # module-level `if cond: name = other` aliases (helpers.calculate_key) are resolved through the real module
        return m

    def _mkclass(self, n, modname, real, qual):
        c = SClass(n.name, modname, n, real)
        for b in n.body:
            if isinstance(b, ast.FunctionDef):
                c.methods[b.name] = FuncRef(modname, qual + "." + b.name, b, cls=c)
            elif isinstance(b, ast.ClassDef):
                c.methods[b.name] = self._mkclass(b, modname, getattr(real, b.name, None) if real else None, qual + "." + b.name)
        c.base_nodes = n.bases
        return c

    def cls(self, modname, name):
        c = self.load(modname)["classes"][name]
        self._link_bases(c)
        return c

    def _link_bases(self, c):
        if getattr(c, "_linked", False):
            return
        c._linked = True
        for b in c.base_nodes:
            if isinstance(b, ast.Name):
                try:
                    v = self.global_lookup(c.module, b.id)
                except Unsupported:
                    continue
                if isinstance(v, SClass):
                    self._link_bases(v)
                    c.bases.append(v)

    def func(self, modname, name):
        return self.load(modname)["funcs"][name]

    # -------------------------------------------------------------- exploration
    def explore(self, harness, max_paths=200000):
        """run harness(engine) on every feasible path; returns list of (decisions, pc, result)"""
        results, todo = [], [[]]
        while todo:
            prefix = todo.pop()
            self.decisions, self.cursor, self.pc, self.new_alts = list(prefix), 0, [], []
            self.pc = [self.range_cond(v, b) for (v, b) in self.declared.values()]
            # facts about terms built on other paths are irrelevant here: axioms / CRC symbols / byte groups are per path
            self.axioms, self._axiom_ids = [], {}
            self.__dict__.pop("crc_reg", None)
            self.guards = []
            self.symdec = 0
            self.in_path = True
            try:
                res = harness(self)
                # the path condition carries the axioms (CRC / token facts) that were generated on this path
                results.append((list(self.decisions), list(self.pc) + list(self.axioms), res, self.symdec))
            except PathEnd:
                pass
            todo.extend(self.new_alts)
            if len(results) > max_paths:
                raise Inconclusive("path budget exceeded")
        self.stats_paths += len(results)
        return results

    def check(self, *extra, pc=None):
        t = time.time()
        self.solver.push()
        self.solver.add(*(self.pc if pc is None else pc), *self.axioms, *extra)
        r = self.solver.check()
        m = self.solver.model() if r == z3.sat else None
        self.solver.pop()
        self.queries += 1
        self.solver_time += time.time() - t
        return r, m

    def add_axiom(self, t):
        k = t.get_id()
        if k not in self._axiom_ids:
            self._axiom_ids[k] = t
            self.axioms.append(t)

    def assume(self, cond):
        if isinstance(cond, bool):
            if not cond:
                raise PathEnd()
            return
        self.pc.append(cond)

    def branch(self, cond):
        if isinstance(cond, bool):
            return cond
        if not z3.is_bool(cond):
            raise Unsupported("branch on %r" % (cond,))
        cond = z3.simplify(cond)
        if z3.is_true(cond):
            return True
        if z3.is_false(cond):
            return False
        if self.guards:
            raise Unsupported("branch under merged guard")
        if self.intmode == "int":
            q = self.quick_decide(cond)
            if q is not None:
                return q
        if self.cursor < len(self.decisions):
            d = self.decisions[self.cursor]
            self.cursor += 1
            self.symdec += 1
            self.pc.append(cond if d else z3.Not(cond))
            return d
        rt, _ = self.check(cond)
        if rt == z3.unsat:
            rf = z3.sat  # the path so far is feasible, so the other side is
        else:
            rf, _ = self.check(z3.Not(cond))
        if str(rt) == "unknown" or str(rf) == "unknown":
            raise Inconclusive("solver unknown at a branch")
        if rt == z3.sat and rf == z3.sat:
            self.new_alts.append(self.decisions + [False])
            d = True
            self.symdec += 1
        elif rt == z3.sat:
            d = True
        elif rf == z3.sat:
            d = False
        else:
            raise PathEnd()
        self.decisions.append(d)
        self.cursor += 1
        self.pc.append(cond if d else z3.Not(cond))
        return d

    # ------------------------------------------------- interval pre-filter (Int mode)
    def ival(self, t, depth=0):
        """sound interval of an Int term from declared ranges (all of which are path assumptions); None = unknown"""
        if not is_sym(t):
            return (int(t), int(t))
        if depth > 40:
            return None
        if z3.is_int_value(t):
            v = t.as_long()
            return (v, v)
        k = t.decl().kind()
        ch = t.children()
        if k == z3.Z3_OP_UNINTERPRETED:
            return self.ranges.get(t.decl().name())
        if k == z3.Z3_OP_ADD:
            lo = hi = 0
            for c in ch:
                r = self.ival(c, depth + 1)
                if r is None:
                    return None
                lo, hi = lo + r[0], hi + r[1]
            return (lo, hi)
        if k == z3.Z3_OP_SUB and len(ch) == 2:
            a, b = self.ival(ch[0], depth + 1), self.ival(ch[1], depth + 1)
            return None if a is None or b is None else (a[0] - b[1], a[1] - b[0])
        if k == z3.Z3_OP_UMINUS:
            a = self.ival(ch[0], depth + 1)
            return None if a is None else (-a[1], -a[0])
        if k == z3.Z3_OP_MUL and len(ch) == 2:
            a, b = self.ival(ch[0], depth + 1), self.ival(ch[1], depth + 1)
            if a is None or b is None:
                return None
            ps = [a[0] * b[0], a[0] * b[1], a[1] * b[0], a[1] * b[1]]
            return (min(ps), max(ps))
        if k == z3.Z3_OP_MOD and z3.is_int_value(ch[1]) and ch[1].as_long() > 0:
            a = self.ival(ch[0], depth + 1)
            c = ch[1].as_long()
            if a is not None and a[0] >= 0 and a[1] < c:
                return a
            return (0, c - 1)
        if k in (z3.Z3_OP_IDIV, z3.Z3_OP_DIV) and z3.is_int_value(ch[1]) and ch[1].as_long() > 0:
            a = self.ival(ch[0], depth + 1)
            c = ch[1].as_long()
            return None if a is None else (a[0] // c, a[1] // c)
        if k == z3.Z3_OP_ITE:
            a, b = self.ival(ch[1], depth + 1), self.ival(ch[2], depth + 1)
            return None if a is None or b is None else (min(a[0], b[0]), max(a[1], b[1]))
        return None

    def quick_decide(self, cond):
        k = cond.decl().kind()
        ch = cond.children()
        if k == z3.Z3_OP_NOT:
            r = self.quick_decide(ch[0])
            return None if r is None else (not r)
        if k in (z3.Z3_OP_LE, z3.Z3_OP_LT, z3.Z3_OP_GE, z3.Z3_OP_GT, z3.Z3_OP_EQ, z3.Z3_OP_DISTINCT) and len(ch) == 2 \
                and z3.is_int(ch[0]):
            a, b = self.ival(ch[0]), self.ival(ch[1])
            if a is None or b is None:
                return None
            if k == z3.Z3_OP_LE:
                return True if a[1] <= b[0] else (False if a[0] > b[1] else None)
            if k == z3.Z3_OP_LT:
                return True if a[1] < b[0] else (False if a[0] >= b[1] else None)
            if k == z3.Z3_OP_GE:
                return True if a[0] >= b[1] else (False if a[1] < b[0] else None)
            if k == z3.Z3_OP_GT:
                return True if a[0] > b[1] else (False if a[1] <= b[0] else None)
            if k == z3.Z3_OP_EQ:
                return False if (a[1] < b[0] or b[1] < a[0]) else None
            if k == z3.Z3_OP_DISTINCT:
                return True if (a[1] < b[0] or b[1] < a[0]) else None
        if k == z3.Z3_OP_OR:
            rs = [self.quick_decide(c) for c in ch]
            if any(r is True for r in rs):
                return True
            if all(r is False for r in rs):
                return False
        if k == z3.Z3_OP_AND:
            rs = [self.quick_decide(c) for c in ch]
            if any(r is False for r in rs):
                return False
            if all(r is True for r in rs):
                return True
        return None

    # ---------------------------------------------------------------- int domain
    def sym_int(self, name, bits=64, signed=False):
        """fresh symbolic integer with 0 <= x < 2**bits (added to the path condition by the caller via assume)"""
        if self.intmode == "bv":
            v = z3.BitVec(name, self.W)
            self.bounds[v.get_id()] = (v, (1 << bits) - 1)
        else:
            v = z3.Int(name)
            self.ranges[name] = (0, (1 << bits) - 1)
        if name not in self.declared:
            self.declared[name] = (v, bits)
            if getattr(self, "pc", None) is not None and self.in_path:
                self.pc.append(self.range_cond(v, bits))
        return v

    def range_cond(self, v, bits):
        if self.intmode == "bv":
            return z3.ULT(v, z3.BitVecVal(1 << bits, self.W))
        return z3.And(v >= 0, v < (1 << bits))

    def lift(self, x):
        if is_sym(x):
            return x
        if isinstance(x, bool):
            x = int(x)
        if self.intmode == "bv":
            if abs(x) >> (self.W - 1):
                raise Inconclusive("constant too wide for BV(%d)" % self.W)
            return z3.BitVecVal(x, self.W)
        return z3.IntVal(x)

    def mag(self, x):
        """upper bound of |x| (python int); unknown terms count as full width"""
        if not is_sym(x):
            return abs(int(x))
        if z3.is_bool(x):
            return 1
        b = self.bounds.get(x.get_id())
        if b is not None:
            return b[1]
        if z3.is_bv_value(x):
            return abs(x.as_signed_long())
        return (1 << self.W) - 1

    def bits(self, x):
        return self.mag(x).bit_length()

    def _rec(self, term, bits=None, hi=None):
        if self.intmode == "bv":
            if hi is None:
                hi = (1 << bits) - 1
            if hi >= (1 << (self.W - 1)):
                raise Inconclusive("integer may exceed BV width (magnitude up to 2^%d)" % hi.bit_length())
            term = z3.simplify(term)
            self.bounds[term.get_id()] = (term, hi)
        return term

    def toint(self, x):
        """Bool term -> int term"""
        if z3.is_bool(x):
            return self._rec(z3.If(x, self.lift(1), self.lift(0)), 1)
        return x

    def binop(self, op, a, b):
        t = type(op)
        if type(a).__name__ == "Tok" or type(b).__name__ == "Tok":
            raise ModelRaise("Desync")  # a NUMBER token consumed as a raw byte: reader and writer disagree on framing
        if t is ast.Mod and isinstance(a, str) and not isinstance(a, SStr):
            # "format" % values with symbolic operands: the text is not the subject (the operands were evaluated already)
            vals = b if isinstance(b, tuple) else (b,)
            if any(is_sym(v) or type(v).__module__.startswith("vf.") for v in vals):
                return "<formatted>"
        if a is None or b is None:
            raise ModelRaise("TypeError", ["unsupported operand type(s): NoneType"], cls=TypeError)
        if not is_sym(a) and not is_sym(b):
            r = self.models.concrete_binop(self, t, a, b)
            if r is not NotImplemented:
                return r
            try:
                return _BIN[t](a, b)
            except (TypeError, ZeroDivisionError, ValueError, OverflowError) as ex:
                # what the real interpreter raises for this operation on these concrete operands
                raise ModelRaise(type(ex).__name__, [str(ex)], cls=type(ex))
        if isinstance(a, (SBytes, Rope, SStr, list, tuple)) or isinstance(b, (SBytes, Rope, SStr, list, tuple)):
            return self.models.concrete_binop(self, t, a, b, strict=True)
        if isinstance(a, float) or isinstance(b, float) or (is_sym(a) and z3.is_real(a)) or (is_sym(b) and z3.is_real(b)):
            return self.models.real_binop(self, t, a, b)
        if z3.is_bool(a) and z3.is_bool(b) and t in (ast.BitAnd, ast.BitOr):
            return z3.And(a, b) if t is ast.BitAnd else z3.Or(a, b)
        if (z3.is_bool(a) or isinstance(a, bool)) and (z3.is_bool(b) or isinstance(b, bool)) and t in (ast.BitAnd, ast.BitOr):
            a = a if is_sym(a) else z3.BoolVal(a)
            b = b if is_sym(b) else z3.BoolVal(b)
            return z3.And(a, b) if t is ast.BitAnd else z3.Or(a, b)
        a, b = self.toint(a), self.toint(b)
        if self.intmode == "bv":
            return self._bv_binop(t, a, b)
        return self._int_binop(t, a, b)

    def _bv_binop(self, t, a, b):
        ha, hb = self.mag(a), self.mag(b)
        A, B = self.lift(a), self.lift(b)
        allones = (1 << max(ha.bit_length(), hb.bit_length())) - 1
        if t is ast.Add:
            return self._rec(A + B, hi=ha + hb)
        if t is ast.Sub:
            return self._rec(A - B, hi=ha + hb)
        if t is ast.BitOr:
            return self._rec(A | B, hi=allones)
        if t is ast.BitXor:
            return self._rec(A ^ B, hi=allones)
        if t is ast.BitAnd:
            # sound for non-negative operands; a negative concrete mask keeps the other operand's magnitude
            if not is_sym(a) and a < 0:
                return self._rec(A & B, hi=hb)
            if not is_sym(b) and b < 0:
                return self._rec(A & B, hi=ha)
            return self._rec(A & B, hi=min(ha, hb))
        if t is ast.LShift:
            if is_sym(b):
                raise Unsupported("symbolic shift amount")
            return self._rec(A << B, hi=ha << b)
        if t is ast.RShift:
            if is_sym(b):
                raise Unsupported("symbolic shift amount")
            return self._rec(A >> B, hi=ha >> b if b >= 0 else ha)
        if t is ast.Mult:
            return self._rec(A * B, hi=ha * hb)
        if t is ast.FloorDiv and not is_sym(b) and b > 0 and (b & (b - 1)) == 0:
            return self._rec(A >> (b.bit_length() - 1), hi=ha >> (b.bit_length() - 1))
        if t is ast.Mod and not is_sym(b) and b > 0 and (b & (b - 1)) == 0:
            return self._rec(A & (b - 1), hi=b - 1)
        if t is ast.FloorDiv and not is_sym(b) and b > 0:
            # python floor division; operands here are non-negative in every use (guarded by a branch)
            if self.branch(A < 0):
                raise Unsupported("floor division of a negative BV")
            return self._rec(z3.UDiv(A, B), hi=ha)
        if t is ast.Mod and not is_sym(b) and b > 0:
            if self.branch(A < 0):
                raise Unsupported("mod of a negative BV")
            return self._rec(z3.URem(A, B), hi=b - 1)
        raise Unsupported("BV binop %s" % t.__name__)

    def _bitspan(self, t, depth=0):
        """(known trailing zero bits, bit-length bound or None) of a non-negative Int term"""
        if not is_sym(t):
            v = int(t)
            if v < 0:
                return (0, None)
            return ((v & -v).bit_length() - 1 if v else 1 << 30, v.bit_length())
        iv = self.ival(t)
        hi = iv[1].bit_length() if iv is not None and iv[0] >= 0 else None
        tz = 0
        if depth < 20:
            k = t.decl().kind()
            ch = t.children()
            if z3.is_int_value(t):
                return self._bitspan(t.as_long())
            if k == z3.Z3_OP_MUL and len(ch) == 2:
                for x, y in ((ch[0], ch[1]), (ch[1], ch[0])):
                    if z3.is_int_value(x) and x.as_long() > 0:
                        c = x.as_long()
                        tz = ((c & -c).bit_length() - 1) + self._bitspan(y, depth + 1)[0]
                        break
            elif k == z3.Z3_OP_ADD:
                tz = min(self._bitspan(c, depth + 1)[0] for c in ch)
        return (tz, hi)

    def _int_binop(self, t, a, b):
        if t is ast.Add:
            return a + b
        if t is ast.Sub:
            return a - b
        if t is ast.Mult:
            if is_sym(a) and is_sym(b):
                raise Unsupported("symbolic * symbolic")
            return a * b
        if t in (ast.BitAnd,):
            sym, c = (a, b) if is_sym(a) else (b, a)
            if is_sym(c):
                raise Unsupported("symbolic & symbolic in Int mode")
            iv = self.ival(sym)
            if iv is not None and iv[0] >= 0 and c >= 0:
                if iv[1] < (c & -c if c else 1):
                    return 0  # every set bit of the mask lies above the value
                if (c + 1) & c == 0 and iv[1] <= c:
                    return sym  # low-bit mask that covers the whole value
            if c >= 0 and (c + 1) & c == 0:
                return sym % (c + 1)
            if c < 0 and (~c + 1) & ~c == 0:
                return sym - sym % (~c + 1)
            if 0 <= c < (1 << 16):
                # bit-wise: sum of the selected bits (sound for non-negative sym; negative values are branched away)
                if self.branch(sym < 0):
                    raise Unsupported("& of a negative Int")
                acc = 0
                for k in range(c.bit_length()):
                    if (c >> k) & 1:
                        acc = acc + ((sym / (1 << k)) % 2) * (1 << k)
                return acc
            raise Unsupported("& with mask %d" % c)
        if t is ast.BitOr:
            # operands occupying disjoint bit ranges: a | b = a + b  (attribute words: FLAGS | (mode << 16))
            (za, ha), (zb, hb) = self._bitspan(a), self._bitspan(b)
            if ha is not None and hb is not None and (ha <= zb or hb <= za):
                return a + b
            for (sym, (z_, h_), c) in ((a, (za, ha), b), (b, (zb, hb), a)):
                # a constant none of whose set bits falls into the span [z_, h_) the symbolic operand can occupy
                if is_sym(sym) and not is_sym(c) and h_ is not None and c >= 0 and h_ > z_ and (c >> z_) & ((1 << (h_ - z_)) - 1) == 0:
                    return a + b
            raise Unsupported("Int | on operands whose bit ranges may overlap")
        if t is ast.FloorDiv and not is_sym(b) and b > 0:
            return a / b if is_sym(a) else a // b  # z3 Int '/' is floor division for positive divisors
        if t is ast.Mod and not is_sym(b) and b > 0:
            return a % b
        if t is ast.LShift and not is_sym(b):
            return a * (1 << b)
        if t is ast.RShift and not is_sym(b):
            return a / (1 << b)
        raise Unsupported("Int binop %s" % t.__name__)

    def compare(self, op, a, b):
        t = type(op)
        r = self.models.compare(self, t, a, b)
        if r is not NotImplemented:
            return r
        if type(a).__name__ == "Tok" or type(b).__name__ == "Tok":
            raise ModelRaise("Desync")
        if not is_sym(a) and not is_sym(b):
            if t is ast.Is:
                return a is b
            if t is ast.IsNot:
                return a is not b
            if t is ast.In:
                return self.models.contains(self, b, a)
            if t is ast.NotIn:
                r = self.models.contains(self, b, a)
                return (not r) if isinstance(r, bool) else z3.Not(r)
            try:
                return _CMP[t](a, b)
            except TypeError as ex:
                raise ModelRaise("TypeError", [str(ex)], cls=TypeError)
        if t in (ast.Is, ast.IsNot):
            if a is None or b is None:
                return t is ast.IsNot
            raise Unsupported("is on symbolic")
        if t in (ast.In, ast.NotIn):
            r = self.models.contains(self, b, a)
            return r if t is ast.In else ((not r) if isinstance(r, bool) else z3.Not(r))
        if a is None or b is None:
            if t is ast.Eq:
                return False
            if t is ast.NotEq:
                return True
            raise ModelRaise("TypeError", cls=TypeError)
        if z3.is_bool(a) or z3.is_bool(b):
            if (z3.is_bool(a) or isinstance(a, bool)) and (z3.is_bool(b) or isinstance(b, bool)):
                A = a if is_sym(a) else z3.BoolVal(a)
                B = b if is_sym(b) else z3.BoolVal(b)
                if t is ast.Eq:
                    return A == B
                if t is ast.NotEq:
                    return A != B
            a, b = self.toint(a), self.toint(b)
        if (is_sym(a) and z3.is_real(a)) or (is_sym(b) and z3.is_real(b)) or isinstance(a, float) or isinstance(b, float):
            return _CMP[t](a, b)
        A, B = self.lift(a), self.lift(b)
        return _CMP[t](A, B)  # z3 BitVec comparison operators are signed, like the tracked magnitudes

    def truth(self, v):
        if isinstance(v, bool) or z3.is_bool(v):
            return v
        if v is None:
            return False
        if is_sym(v) and z3.is_string(v):
            return z3.Length(v) > 0
        if is_sym(v):
            return v != self.lift(0)
        if isinstance(v, SBytes):
            return len(v) > 0
        if isinstance(v, Rope):
            return v.length() != 0
        if isinstance(v, SStr):
            return len(v) > 0
        if isinstance(v, SObj):
            r = v.cls.find("__len__")
            if r:
                return self.truth(self.call_function(r[1], [v], {}))
            r = v.cls.find("__bool__")
            if r:
                return self.truth(self.call_function(r[1], [v], {}))
            return True
        return bool(v)

    def ite(self, c, a, b):
        if isinstance(c, bool):
            return a if c else b
        if z3.is_bool(a) or z3.is_bool(b) or isinstance(a, bool) or isinstance(b, bool):
            A = a if is_sym(a) else z3.BoolVal(bool(a))
            B = b if is_sym(b) else z3.BoolVal(bool(b))
            return z3.If(c, A, B)
        r = z3.If(c, self.lift(a), self.lift(b))
        return self._rec(r, hi=max(self.mag(a), self.mag(b))) if self.intmode == "bv" else r

    # -------------------------------------------------------------- name lookup
    def global_lookup(self, modname, name):
        m = self.load(modname)
        if name in m["funcs"]:
            return m["funcs"][name]
        if name in m["classes"]:
            c = m["classes"][name]
            self._link_bases(c)
            return c
        real = m["real"]
        if hasattr(real, name):
            return self.wrap_real(getattr(real, name), name)
        if hasattr(builtins, name):
            return self.wrap_real(getattr(builtins, name), name)
        raise Unsupported("name %s in %s" % (name, modname))

    def wrap_real(self, obj, name=None):
        """bring a real Python object referenced by the interpreted code into the value domain"""
        if isinstance(obj, (bool, int, str, float)) or obj is None:
            return obj
        if isinstance(obj, (bytes, bytearray)):
            return self.mkbytes(bytes(obj))
        if isinstance(obj, types.ModuleType):
            if obj.__name__.startswith("py7zr") and os.path.exists(os.path.join(REPO, obj.__name__.replace(".", "/") + ".py")):
                self.load(obj.__name__)
            return ModRef(obj)
        if isinstance(obj, types.FunctionType) and (obj.__module__.startswith("py7zr") or obj.__module__ in self.modules) \
                and "<locals>" not in obj.__qualname__:
            m = self.load(obj.__module__)
            parts = obj.__qualname__.split(".")
            if len(parts) == 1 and parts[0] in m["funcs"]:
                return m["funcs"][parts[0]]
            if len(parts) == 2 and parts[0] in m["classes"]:
                r = self.cls(obj.__module__, parts[0]).find(parts[1])
                if r:
                    return r[1]
        if isinstance(obj, type):
            if obj.__module__.startswith("py7zr") or obj.__module__ in self.modules:
                try:
                    m = self.load(obj.__module__)
                except OSError:
                    m = None
                if m and obj.__name__ in m["classes"]:
                    c = m["classes"][obj.__name__]
                    self._link_bases(c)
                    if issubclass(obj, BaseException):
                        return ExcClassRef(obj.__name__, obj)
                    return c
            if issubclass(obj, BaseException):
                return ExcClassRef(obj.__name__, obj)
        if isinstance(obj, tuple):
            return tuple(self.wrap_real(x) for x in obj)
        if isinstance(obj, list):
            return [self.wrap_real(x) for x in obj]
        if isinstance(obj, dict):
            return {k: self.wrap_real(v) for k, v in obj.items()}
        return obj  # builtins, real classes and callables: dispatched through models

    def mkbytes(self, b):
        if self.bytes_domain == "rope":
            return Rope([("LIT:" + bytes(b).hex(), 0, len(b))] if len(b) else [])
        return SBytes(list(b))

    # ---------------------------------------------------------------- execution
    def call_function(self, f, args, kw=None):
        """call an interpreted function/closure/bound method with already evaluated arguments"""
        kw = kw or {}
        if isinstance(f, BoundMethod):
            return self.call_function(f.func, [f.obj] + list(args), kw)
        if isinstance(f, FuncRef):
            key = (f.module, f.qualname)
            if key in self.overrides:
                return self.overrides[key](self, *args, **kw)
            self.touched.add("%s:%s" % key)
            node, modname, closure_env = f.node, f.module, None
        elif isinstance(f, Closure):
            node, modname, closure_env = f.node, f.module, f.env
        else:
            return self.models.call_native(self, f, args, kw)
        a = node.args
        params = [p.arg for p in a.posonlyargs + a.args]
        env = dict(closure_env) if closure_env else {}
        env["__module__"] = modname
        if isinstance(f, FuncRef):
            env["__func__"] = f.qualname
        if isinstance(f, FuncRef) and f.cls is not None:
            env["__class__"] = f.cls
        if len(args) > len(params) and not a.vararg:
            raise ModelRaise("TypeError", cls=TypeError)
        for p, v in zip(params, args):
            env[p] = v
        if a.vararg:
            env[a.vararg.arg] = tuple(args[len(params):])
        defaults = a.defaults
        for i, p in enumerate(params):
            if p in env:
                if p in kw and i >= len(args):
                    pass
                continue
            if p in kw:
                env[p] = kw[p]
            else:
                di = i - (len(params) - len(defaults))
                if di < 0:
                    raise ModelRaise("TypeError", cls=TypeError)
                # default values are evaluated ONCE, when the function is defined (not per call)
                cache = self._defaults.setdefault(id(node), {})
                if di not in cache:
                    cache[di] = self.expr(defaults[di], {"__module__": modname})
                env[p] = cache[di]
        for p, d in zip(a.kwonlyargs, a.kw_defaults):
            env[p.arg] = kw[p.arg] if p.arg in kw else (self.expr(d, env) if d is not None else None)
        if isinstance(node, ast.Lambda):
            return self.expr(node.body, env)
        try:
            self.block(node.body, env)
        except ReturnEx as r:
            return r.value
        return None

    def call(self, modname, name, *args, **kw):
        return self.call_function(self.func(modname, name), list(args), kw)

    def new(self, cls, *args, **kw):
        cm = self.class_models.get((cls.module, cls.name))
        if cm is not None:
            return cm(self, *args, **kw)
        o = SObj(cls)
        r = cls.find("__init__")
        if r:
            self.call_function(r[1], [o] + list(args), kw)
        return o

    def method(self, obj, name, *args, **kw):
        r = obj.cls.find(name)
        if not r:
            raise Unsupported("method %s.%s" % (obj.cls.name, name))
        return self.call_function(r[1], [obj] + list(args), kw)

    def block(self, stmts, env):
        for s in stmts:
            self.stmt(s, env)

    def stmt(self, s, env):
        try:
            return self._stmt(s, env)
        except Inconclusive as ex:
            if not getattr(ex, "where", None):
                ex.where = "%s:%d" % (env.get("__module__"), s.lineno)
                ex.args = (("%s [at %s]" % (ex.args[0] if ex.args else "", ex.where)),)
            raise
        except BudgetExceeded as ex:
            if ex.where is None:
                ex.where = "%s:%s" % (env.get("__module__"), env.get("__func__"))
            raise

    def _stmt(self, s, env):
        k = type(s)
        if k is ast.Expr:
            if not isinstance(s.value, ast.Constant):
                self.expr(s.value, env)
        elif k is ast.Assign:
            v = self.expr(s.value, env)
            for t in s.targets:
                self.assign(t, v, env)
        elif k is ast.AnnAssign:
            if s.value is not None:
                self.assign(s.target, self.expr(s.value, env), env)
        elif k is ast.AugAssign:
            cur = self.expr(s.target, env)
            if isinstance(cur, list) and isinstance(s.op, ast.Add):
                cur.extend(self.expr(s.value, env))
                return
            v = self.binop(s.op, cur, self.expr(s.value, env))
            self.assign(s.target, v, env)
        elif k is ast.Return:
            raise ReturnEx(self.expr(s.value, env) if s.value else None)
        elif k is ast.If:
            test = self.truth(self.expr(s.test, env))
            if self.merge_ifs and z3.is_bool(test) and not s.orelse and self._mergeable(s.body):
                test = z3.simplify(test)
                if z3.is_true(test):
                    self.block(s.body, env)
                elif not z3.is_false(test):
                    self.guards.append(test)
                    try:
                        self.block(s.body, env)
                    finally:
                        self.guards.pop()
            elif self.branch(test):
                self.block(s.body, env)
            else:
                self.block(s.orelse, env)
        elif k is ast.Pass:
            pass
        elif k is ast.For:
            it = self.iterate(self.expr(s.iter, env))
            broke = False
            try:
                for item in it:
                    self.assign(s.target, item, env)
                    try:
                        self.block(s.body, env)
                    except ContinueEx:
                        pass
            except BreakEx:
                broke = True
            if not broke and s.orelse:
                self.block(s.orelse, env)
        elif k is ast.While:
            n = 0
            limit, mode = self.loop_limits.get((env.get("__module__"), env.get("__func__")), (self.unroll, self.unwind_mode))
            try:
                while self.branch(self.truth(self.expr(s.test, env))):
                    n += 1
                    if n > limit:
                        if mode == "assume":
                            self.cut_paths += 1
                            raise PathEnd()
                        raise Unwind("while loop needs more than %d iterations (line %d)" % (limit, s.lineno))
                    try:
                        self.block(s.body, env)
                    except ContinueEx:
                        pass
            except BreakEx:
                pass
        elif k is ast.Break:
            raise BreakEx()
        elif k is ast.Continue:
            raise ContinueEx()
        elif k is ast.Assert:
            if not self.branch(self.truth(self.expr(s.test, env))):
                raise ModelRaise("AssertionError", cls=AssertionError)
        elif k is ast.Raise:
            self.do_raise(s, env)
        elif k is ast.Try:
            self.do_try(s, env)
        elif k is ast.With:
            self.do_with(s, env)
        elif k is ast.FunctionDef:
            env[s.name] = Closure(s, env, env["__module__"])
        elif k is ast.ClassDef:
            raise Unsupported("nested class definition")
        elif k in (ast.Import, ast.ImportFrom):
            for al in s.names:
                nm = al.asname or al.name.split(".")[0]
                if k is ast.Import:
                    env[nm] = ModRef(importlib.import_module(al.name.split(".")[0] if not al.asname else al.name))
                else:
                    env[nm] = self.wrap_real(getattr(importlib.import_module(s.module), al.name), al.name)
        elif k is ast.Delete:
            for t in s.targets:
                if isinstance(t, ast.Name):
                    env.pop(t.id, None)
                elif isinstance(t, ast.Attribute):
                    self.expr(t.value, env).attrs.pop(t.attr, None)
                else:
                    raise Unsupported("del target")
        else:
            raise Unsupported("statement %s" % k.__name__)

    def _mergeable(self, body):
        for st in body:
            if not isinstance(st, (ast.Assign, ast.AugAssign)):
                return False
            for n in ast.walk(st):
                if isinstance(n, ast.Call):
                    return False
        return True

    def guarded(self, old, v):
        for g in self.guards:
            v = self.ite(g, v, old)
        return v

    def do_raise(self, s, env):
        if s.exc is None:
            raise env["__exc__"]
        v = self.expr_exc(s.exc, env)
        raise v

    def expr_exc(self, e, env):
        if isinstance(e, ast.Call):
            c = self.expr(e.func, env)
            if isinstance(c, ExcClassRef):
                args = []
                for a in e.args:
                    try:
                        args.append(self.expr(a, env))
                    except Inconclusive:
                        args.append("<msg>")  # message formatting is not the subject
                return ModelRaise(c.name, args, cls=c.real)
            if isinstance(c, SClass) and c.real is not None and issubclass(c.real, BaseException):
                return ModelRaise(c.name, [], cls=c.real)
            v = self.callexpr(e, env)  # e.g. exc.with_traceback(tb)
            if isinstance(v, ModelRaise):
                return v
            raise Unsupported("raise of %r" % (c,))
        v = self.expr(e, env)
        if isinstance(v, ExcClassRef):
            return ModelRaise(v.name, [], cls=v.real)
        if isinstance(v, ModelRaise):
            return v
        raise Unsupported("raise of %r" % (v,))

    def exc_matches(self, ex, handler_type, env):
        if handler_type is None:
            return True
        t = self.expr(handler_type, env)
        ts = t if isinstance(t, tuple) else (t,)
        for x in ts:
            real = x.real if isinstance(x, (ExcClassRef, SClass)) else x
            if ex.cls is not None and isinstance(real, type) and issubclass(ex.cls, real):
                return True
            if ex.cls is None and getattr(x, "name", None) == ex.name:
                return True
        return False

    def do_try(self, s, env):
        try:
            try:
                self.block(s.body, env)
            except ModelRaise as ex:
                for h in s.handlers:
                    if self.exc_matches(ex, h.type, env):
                        if h.name:
                            env[h.name] = ex
                        old = env.get("__exc__")
                        env["__exc__"] = ex
                        old_cur, self.current_exc = getattr(self, "current_exc", None), ex
                        try:
                            self.block(h.body, env)
                        finally:
                            env["__exc__"] = old
                            self.current_exc = old_cur
                        break
                else:
                    raise
            else:
                self.block(s.orelse, env)
        finally:
            if s.finalbody:
                self.block(s.finalbody, env)

    def do_with(self, s, env):
        mgrs = []
        for item in s.items:
            m = self.expr(item.context_expr, env)
            v = self.models.ctx_enter(self, m)
            mgrs.append(m)
            if item.optional_vars is not None:
                self.assign(item.optional_vars, v, env)
        try:
            self.block(s.body, env)
        except ModelRaise as ex:
            # __exit__(type, value, tb): a truthy return value suppresses the exception
            suppressed = False
            for m in reversed(mgrs):
                if self.branch(self.truth(self.models.ctx_exit(self, m, ex))):
                    suppressed = True
                    ex = None
            if not suppressed:
                raise
        except BaseException:
            for m in reversed(mgrs):
                self.models.ctx_exit(self, m, None)
            raise
        else:
            for m in reversed(mgrs):
                self.models.ctx_exit(self, m, None)

    def iterate(self, it):
        if isinstance(it, (list, tuple, range, dict)):
            return list(it)
        if isinstance(it, SBytes):
            return list(it.items)
        if isinstance(it, SStr):
            return [SStr([c]) for c in it.cps]
        if isinstance(it, str):
            return list(it)
        if isinstance(it, SObj):
            r = it.cls.find("__iter__")
            if r:
                itr = self.call_function(r[1], [it], {})
                out = []
                for _ in range(10000):
                    try:
                        out.append(self.method(itr, "__next__"))
                    except ModelRaise as e:
                        if e.name == "StopIteration":
                            return out
                        raise
                raise Unwind("iterator too long")
        if isinstance(it, types.GeneratorType):
            return it
        if hasattr(it, "__iter__") and not is_sym(it):
            return list(it)
        if it is None or isinstance(it, (bool, int, float)):
            raise ModelRaise("TypeError", ["%s object is not iterable" % type(it).__name__], cls=TypeError)
        raise Unsupported("iteration over %r" % (it,))

    def sym_range(self, n, start=0):
        """range(n) for symbolic n, materialised (forks on the trip count)"""
        return list(self.lazy_range(n, start))

    def lazy_range(self, n, start=0):
        """range(n) for symbolic n as a generator: forks on `i < n` before each iteration.  With `count_budget` set, a
        loop/allocation that can exceed the budget raises BudgetExceeded (resource obligation); otherwise the unrolling
        bound applies (unwinding assertion)."""
        i, k = start, 0
        while True:
            if not self.branch(self.compare(ast.Lt(), i, n)):
                return
            if self.count_budget is not None:
                if k >= self.count_budget:
                    raise BudgetExceeded(n)
            elif k >= self.unroll:
                raise Unwind("range() needs more than %d iterations" % self.unroll)
            yield i
            i += 1
            k += 1

    def assign(self, t, v, env):
        k = type(t)
        if k is ast.Name:
            if self.guards:
                v = self.guarded(env[t.id], v)
            env[t.id] = v
        elif k in (ast.Tuple, ast.List):
            vs = self.iterate(v)
            if len(vs) != len(t.elts):
                raise ModelRaise("ValueError", cls=ValueError)
            for tt, vv in zip(t.elts, vs):
                self.assign(tt, vv, env)
        elif k is ast.Attribute:
            obj = self.expr(t.value, env)
            if self.guards:
                raise Unsupported("guarded attribute assignment")
            self.models.setattr(self, obj, t.attr, v)
        elif k is ast.Subscript:
            obj = self.expr(t.value, env)
            if isinstance(t.slice, ast.Slice):
                lo = self.expr(t.slice.lower, env) if t.slice.lower else None
                hi = self.expr(t.slice.upper, env) if t.slice.upper else None
                if self.guards:
                    raise Unsupported("guarded slice assignment")
                self.models.setslice(self, obj, lo, hi, v)
            else:
                idx = self.expr(t.slice, env)
                if self.guards:
                    old = self.models.getitem(self, obj, idx)
                    v = self.guarded(old, v)
                self.models.setitem(self, obj, idx, v)
        else:
            raise Unsupported("assign target %s" % k.__name__)

    # -------------------------------------------------------------- expressions
    def expr(self, e, env):
        k = type(e)
        if k is ast.Constant:
            if isinstance(e.value, bytes):
                return self.mkbytes(e.value)
            return e.value
        if k is ast.Name:
            if e.id in env:
                return env[e.id]
            return self.global_lookup(env["__module__"], e.id)
        if k is ast.Attribute:
            obj = self.expr(e.value, env)
            return self.models.getattr(self, obj, e.attr)
        if k is ast.BinOp:
            return self.binop(e.op, self.expr(e.left, env), self.expr(e.right, env))
        if k is ast.UnaryOp:
            v = self.expr(e.operand, env)
            if isinstance(e.op, ast.Not):
                v = self.truth(v)
                return (not v) if isinstance(v, bool) else z3.Not(v)
            if isinstance(e.op, ast.USub):
                return -v if not is_sym(v) else self.binop(ast.Sub(), 0, v)
            if isinstance(e.op, ast.Invert):
                if not is_sym(v):
                    return ~v
                return self.binop(ast.Sub(), self.binop(ast.Sub(), 0, v), 1)
            if isinstance(e.op, ast.UAdd):
                return v
        if k is ast.BoolOp:
            # short-circuit by forking (operands may have effects or raise)
            isand = isinstance(e.op, ast.And)
            v = None
            for sub in e.values:
                v = self.expr(sub, env)
                t = self.truth(v)
                if self.guards and z3.is_bool(t) and not z3.is_true(z3.simplify(t)) and not z3.is_false(z3.simplify(t)):
                    raise Unsupported("symbolic BoolOp under merged guard")
                if self.branch(t) != isand:
                    return v
            return v
        if k is ast.Compare:
            left = self.expr(e.left, env)
            res = True
            for op, c in zip(e.ops, e.comparators):
                right = self.expr(c, env)
                r = self.compare(op, left, right)
                if len(e.ops) == 1:
                    return r
                if isinstance(r, bool) and isinstance(res, bool):
                    res = res and r
                else:
                    res = z3.And(res if is_sym(res) else z3.BoolVal(res), r if is_sym(r) else z3.BoolVal(r))
                left = right
            return res
        if k is ast.IfExp:
            if self.branch(self.truth(self.expr(e.test, env))):
                return self.expr(e.body, env)
            return self.expr(e.orelse, env)
        if k is ast.Tuple:
            return tuple(self.expr(x, env) for x in e.elts)
        if k is ast.List:
            return [self.expr(x, env) for x in e.elts]
        if k is ast.Dict:
            return {self.expr(a, env): self.expr(b, env) for a, b in zip(e.keys, e.values)}
        if k is ast.Set:
            return {self.expr(x, env) for x in e.elts}
        if k is ast.Subscript:
            obj = self.expr(e.value, env)
            if isinstance(e.slice, ast.Slice):
                lo = self.expr(e.slice.lower, env) if e.slice.lower else None
                hi = self.expr(e.slice.upper, env) if e.slice.upper else None
                if e.slice.step is not None:
                    raise Unsupported("slice step")
                return self.models.getslice(self, obj, lo, hi)
            return self.models.getitem(self, obj, self.expr(e.slice, env))
        if k is ast.Call:
            return self.callexpr(e, env)
        if k is ast.Lambda:
            return Closure(e, env, env["__module__"])
        if k in (ast.ListComp, ast.GeneratorExp, ast.SetComp):
            out = []
            self._comp(e.generators, 0, env, lambda en: out.append(self.expr(e.elt, en)))
            return out if k is not ast.SetComp else set(out)
        if k is ast.DictComp:
            out = {}

            def put(en):
                out[self.expr(e.key, en)] = self.expr(e.value, en)

            self._comp(e.generators, 0, env, put)
            return out
        if k is ast.JoinedStr:
            # message formatting is not the subject, but the interpolated expressions ARE evaluated (they can raise)
            parts, exact = [], True
            for v in e.values:
                if isinstance(v, ast.FormattedValue):
                    val = self.expr(v.value, env)
                    if isinstance(val, (str, int, bool, float, bytes)) or val is None:
                        if v.format_spec is None and v.conversion in (-1, 115):
                            parts.append(str(val))
                            continue
                        if v.conversion == 114 and v.format_spec is None:
                            parts.append(repr(val))
                            continue
                    exact = False
                elif isinstance(v, ast.Constant):
                    parts.append(str(v.value))
            return "".join(parts) if exact else "<fstring>"
        if k is ast.Starred:
            raise Unsupported("starred")
        raise Unsupported("expression %s" % k.__name__)

    def _comp(self, gens, i, env, emit):
        if i == len(gens):
            emit(env)
            return
        g = gens[i]
        for item in self.iterate(self.expr(g.iter, env)):
            en = dict(env)
            self.assign(g.target, item, en)
            if all(self.branch(self.truth(self.expr(c, en))) for c in g.ifs):
                self._comp(gens, i + 1, en, emit)

    def callexpr(self, e, env):
        f = e.func
        args = []
        for a in e.args:
            if isinstance(a, ast.Starred):
                args.extend(self.iterate(self.expr(a.value, env)))
            else:
                args.append(self.expr(a, env))
        kw = {}
        for kx in e.keywords:
            if kx.arg is None:
                kw.update(self.expr(kx.value, env))
            else:
                kw[kx.arg] = self.expr(kx.value, env)
        if isinstance(f, ast.Name) and f.id == "super" and not args:
            return ("super", env["__class__"], self._self_of(env))
        if isinstance(f, ast.Attribute):
            obj = self.expr(f.value, env)
            if isinstance(obj, tuple) and len(obj) == 3 and obj[0] == "super":
                _, cls, slf = obj
                for b in cls.bases:
                    r = b.find(f.attr)
                    if r:
                        return self.call_function(r[1], [slf] + args, kw)
                if f.attr == "__init__":
                    return None
                raise Unsupported("super().%s" % f.attr)
            return self.models.call_method(self, obj, f.attr, args, kw)
        fn = self.expr(f, env)
        return self.call_value(fn, args, kw)

    def _self_of(self, env):
        for k, v in env.items():
            if k not in ("__module__", "__class__", "__func__"):
                return v
        raise Unsupported("super() without self")

    def call_value(self, fn, args, kw=None):
        kw = kw or {}
        if isinstance(fn, (FuncRef, Closure, BoundMethod)):
            return self.call_function(fn, args, kw)
        if isinstance(fn, SClass):
            return self.new(fn, *args, **kw)
        if isinstance(fn, ExcClassRef):
            return ModelRaise(fn.name, args, cls=fn.real)
        return self.models.call_native(self, fn, args, kw)
