"""z3 string / regular-expression support for engine B (the 'engine C' kernels of DESIGN.md): Python `re` patterns are
taken from the live compiled objects, translated through sre_parse into z3 regular expressions, one string variable per
capture group; dict lookups with a symbolic string key fork over the keys."""
from __future__ import annotations

import ast
import re

import z3

from vf.pysym.models import Native
from vf.pysym.values import ModelRaise, Unsupported

try:
    import re._parser as sre_parse
    import re._constants as sre_c
except ImportError:  # pragma: no cover
    import sre_constants as sre_c
    import sre_parse


def _chars(c, ignorecase):
    if ignorecase and c.isalpha():
        return {c.lower(), c.upper()}
    return {c}


def _union(rs):
    rs = list(rs)
    if not rs:
        return z3.Empty(z3.ReSort(z3.StringSort()))
    return rs[0] if len(rs) == 1 else z3.Union(*rs)


def _item(op, arg, ic):
    name = str(op)
    if name == "LITERAL":
        return _union(z3.Re(z3.StringVal(ch)) for ch in sorted(_chars(chr(arg), ic)))
    if name == "ANY":
        return z3.AllChar(z3.ReSort(z3.StringSort()))
    if name == "IN":
        alts = []
        for (o2, a2) in arg:
            n2 = str(o2)
            if n2 == "LITERAL":
                alts += [z3.Re(z3.StringVal(ch)) for ch in sorted(_chars(chr(a2), ic))]
            elif n2 == "RANGE":
                lo, hi = chr(a2[0]), chr(a2[1])
                alts.append(z3.Range(z3.StringVal(lo), z3.StringVal(hi)))
                if ic and lo.isalpha() and hi.isalpha():
                    alts.append(z3.Range(z3.StringVal(lo.swapcase()), z3.StringVal(hi.swapcase())))
            elif n2 == "CATEGORY" and str(a2) == "CATEGORY_DIGIT":
                alts.append(z3.Range(z3.StringVal("0"), z3.StringVal("9")))
            else:
                raise Unsupported("regex class item %s" % n2)
        return _union(alts)
    if name in ("MAX_REPEAT", "MIN_REPEAT"):
        lo, hi, sub = arg
        r = _seq(sub, ic)
        if hi == sre_c.MAXREPEAT:
            return z3.Star(r) if lo == 0 else (z3.Plus(r) if lo == 1 else z3.Concat(z3.Loop(r, lo, lo), z3.Star(r)))
        if lo == 0 and hi == 1:
            return z3.Option(r)
        return z3.Loop(r, lo, hi)
    if name == "SUBPATTERN":
        return _seq(arg[3], ic)
    if name == "BRANCH":
        return _union(_seq(b, ic) for b in arg[1])
    raise Unsupported("regex op %s" % name)


def _seq(items, ic):
    rs = [_item(op, arg, ic) for op, arg in items if str(op) != "AT"]
    if not rs:
        return z3.Re(z3.StringVal(""))
    return rs[0] if len(rs) == 1 else z3.Concat(*rs)


class SMatch(Native):
    def __init__(self, whole, groups):
        self.whole, self.groups = whole, groups

    def group(self, eng, i=0):
        return self.whole if i == 0 else self.groups[i - 1]

    def end(self, eng, i=0):
        raise Unsupported("Match.end")


def pattern_match(eng, pat, s, full=False):
    """Pattern.match(s) for a pattern that is a top-level sequence [^] item* [$] (groups or plain items).
    One fresh string per top-level item; the split is unique for the patterns this is used on (stated bound)."""
    ic = bool(pat.flags & re.IGNORECASE)
    tree = list(sre_parse.parse(pat.pattern, pat.flags))
    anchored_end = bool(tree) and str(tree[-1][0]) == "AT" and "END" in str(tree[-1][1])
    items = [(op, arg) for op, arg in tree if str(op) != "AT"]
    n = eng.__dict__.setdefault("_rx", [0])
    n[0] += 1
    parts, groups, conds = [], [], []
    for k, (op, arg) in enumerate(items):
        v = z3.String("rx%d_%d" % (n[0], k))
        conds.append(z3.InRe(v, _item(op, arg, ic)))
        parts.append(v)
        if str(op) == "SUBPATTERN" and arg[0] is not None:
            groups.append(v)
    whole = z3.Concat(*parts) if len(parts) > 1 else (parts[0] if parts else z3.StringVal(""))
    if anchored_end or full:
        cond = z3.And(s == whole, *conds)
        neg = z3.Not(z3.InRe(s, _seq(items, ic)))
    else:
        rest = z3.String("rx%d_rest" % n[0])
        cond = z3.And(s == z3.Concat(whole, rest), *conds)
        neg = z3.Not(z3.InRe(s, z3.Concat(_seq(items, ic), z3.Full(z3.ReSort(z3.StringSort())))))
    # fork: matches / does not match
    rt, _ = eng.check(cond)
    rf, _ = eng.check(neg)
    if "unknown" in (str(rt), str(rf)):
        from vf.pysym.values import Inconclusive

        raise Inconclusive("string solver unknown on a regex match")
    if eng.cursor < len(eng.decisions):
        d = eng.decisions[eng.cursor]
        eng.cursor += 1
    else:
        if rt == z3.sat and rf == z3.sat:
            eng.new_alts.append(eng.decisions + [False])
            d = True
        elif rt == z3.sat:
            d = True
        elif rf == z3.sat:
            d = False
        else:
            from vf.pysym.values import PathEnd

            raise PathEnd()
        eng.decisions.append(d)
        eng.cursor += 1
    eng.symdec += 1
    if d:
        eng.pc.append(cond)
        eng.last_match = SMatch(whole, groups)
        return eng.last_match
    eng.pc.append(neg)
    return None


def install(eng):
    """hooks: Pattern.match on a z3 string, ==/!= on strings, dict[key] with a symbolic string key, int(str)"""
    eng.string_mode = True
