"""Native stubs for driving the real SevenZipFile write/read paths inside engine B without codecs or a filesystem.

Contract stubs (each is part of the claim and listed in evidence):
* StubCompressor – stands for SevenZipCompressor: compress(fd, fp) consumes the whole source (or fails at a symbolic
  point), writes an arbitrary number of packed bytes to fp, accounts packsize/unpacksizes the way the real class's
  interface promises; flush(fp) writes an arbitrary number of further bytes.
* ArchFile – the archive file: an ordered log of seek/write operations with exact (symbolic) positions; header bytes
  are kept as items, packed data as opaque blobs of symbolic length.
"""
from __future__ import annotations

import ast
import io

import z3

from vf.pysym import tokens
from vf.pysym.models import CrcVal, Native
from vf.pysym.values import ModelRaise, SBytes, SObj, is_sym

PZ = "py7zr.py7zr"
AI = "py7zr.archiveinfo"


class Blob:
    """opaque packed data of symbolic length"""

    def __init__(self, length, tag):
        self.length, self.tag = length, tag


class Fault(Exception):
    pass


class ArchFile(Native):
    isa = (io.IOBase,)

    def __init__(self, eng):
        self.pos = 0
        self.ops = []  # ('seek', pos) | ('write', pos, payload, nbytes)
        self.end = 0
        self.name = None

    def write(self, eng, data):
        if isinstance(data, Blob):
            n = data.length
        elif isinstance(data, SBytes):
            n = tokens.byte_len(eng, data.items)
        else:
            raise ModelRaise("TypeError", cls=TypeError)
        self.ops.append(("write", self.pos, data, n))
        self.pos = eng.binop(ast.Add(), self.pos, n)
        return n

    def seek(self, eng, off, whence=0):
        if whence == 0:
            self.pos = off
        elif whence == 1:
            self.pos = eng.binop(ast.Add(), self.pos, off)
        else:
            raise ModelRaise("Unsupported seek from end")
        self.ops.append(("seek", self.pos))
        return self.pos

    def tell(self, eng):
        return self.pos

    def close(self, eng):
        return None

    def flush(self, eng):
        return None


class StubSource(Native):
    """the io.BytesIO handed to writestr/writef: only its size matters to py7zr's bookkeeping"""

    isa = (io.BytesIO, io.IOBase)

    def __init__(self, size, ident, fail=None):
        self.size, self.ident, self.fail = size, ident, fail
        self.consumed = False

    def getbuffer(self, eng):
        return _NBytes(self.size)

    def close(self, eng):
        return None


class _NBytes(Native):
    def __init__(self, n):
        self.nbytes = n


class StubCompressor(Native):
    """contract stub for SevenZipCompressor (see module docstring)"""

    def __init__(self, eng, nstages, ident):
        self.eng, self.nstages, self.ident = eng, nstages, ident
        self.packsize = 0
        self.digest = eng.sym_int("packdigest_%s" % ident, 32)
        self._unpacksizes = [0] * nstages
        self.blobs = 0
        self.members = []  # (insize, crc) per compress call
        self.flushed = False

    def _fresh(self, what, bits=40):
        self.blobs += 1
        v = self.eng.sym_int("%s_%s_%d" % (what, self.ident, self.blobs), bits)
        self.eng.assume(self.eng.range_cond(v, bits))
        return v

    def compress(self, eng, fd, fp, crc=0):
        if getattr(fd, "fail", None) == "before":
            raise ModelRaise("OSError", ["source unreadable"], cls=OSError)
        if getattr(fd, "fail", None) == "before_valueerror":
            raise ModelRaise("ValueError", ["read of closed file"], cls=ValueError)
        from vf.pysym.values import SFile

        if isinstance(fd, SFile):  # link target text built by Worker.write, or the raw header being encoded
            insize, ident = tokens.byte_len(eng, fd.items), "link%d" % (len(self.members) + 1)
            self.sources = getattr(self, "sources", []) + [list(fd.items)]
        else:
            insize, ident = fd.size, fd.ident
        foutsize = self._fresh("out")
        eng.models.call_method(eng, fp, "write", [Blob(foutsize, (self.ident, self.blobs))], {})
        self.packsize = eng.binop(ast.Add(), self.packsize, foutsize)
        self._unpacksizes[0] = eng.binop(ast.Add(), self._unpacksizes[0], insize)
        for i in range(1, self.nstages):
            self._unpacksizes[i] = eng.binop(ast.Add(), self._unpacksizes[i], self._fresh("stage%d" % i))
        if getattr(fd, "fail", None) == "midway":
            raise ModelRaise("OSError", ["source failed midway"], cls=OSError)
        srccrc = eng.sym_int("crc_%s" % ident, 32)
        eng.assume(eng.range_cond(srccrc, 32))
        self.members.append((insize, srccrc))
        return insize, foutsize, srccrc

    def flush(self, eng, fp):
        foutsize = self._fresh("flush")
        eng.models.call_method(eng, fp, "write", [Blob(foutsize, (self.ident, "flush"))], {})
        self.packsize = eng.binop(ast.Add(), self.packsize, foutsize)
        self.flushed = True
        return foutsize

    def get_unpacksizes(self, eng):
        # SevenZipCompressor.unpacksizes: one entry per coder, last coder first (all-alternative chains)
        return list(reversed(self._unpacksizes))


class Queue(Native):
    def __init__(self):
        self.items = []

    def put(self, eng, x):
        self.items.append(x)

    def put_nowait(self, eng, x):
        self.items.append(x)


CODER_IDS = [bytes([0x21]), bytes([0x03, 0x03, 0x01, 0x03]), bytes([0x04, 0x02, 0x02]), bytes([0x00])]


def install_codec_stubs(eng, nstages=1):
    """Folder.prepare_coderinfo -> attach a StubCompressor and a concrete coder list of `nstages` simple coders"""
    state = {"n": 0}

    def prepare(eng, folder, filters):
        state["n"] += 1
        comp = StubCompressor(eng, nstages, "f%d" % state["n"])
        folder.attrs["compressor"] = comp
        folder.attrs["coders"] = [
            {"method": eng.mkbytes(CODER_IDS[i % len(CODER_IDS)]), "properties": (eng.mkbytes(b"\x18") if i == 0 else None),
             "numinstreams": 1, "numoutstreams": 1} for i in range(nstages)]
        folder.attrs["solid"] = True
        folder.attrs["digestdefined"] = False
        bond = eng.cls(AI, "Bond")
        folder.attrs["bindpairs"] = [eng.new(bond, i + 1, i) for i in range(nstages - 1)]
        state.setdefault("compressors", []).append(comp)
        return None

    eng.overrides[(AI, "Folder.prepare_coderinfo")] = prepare
    eng.overrides[("py7zr.helpers", "ArchiveTimestamp.from_now")] = lambda eng: _fresh_time(eng, state)
    return state


def _fresh_time(eng, state):
    state["t"] = state.get("t", 0) + 1
    v = eng.sym_int("now_%d" % state["t"], 63)
    eng.assume(eng.range_cond(v, 63))
    return v


def new_archive(eng, mode="w", header_mode="raw", password=None):
    """a SevenZipFile in write mode on an ArchFile, built by the real constructor"""
    import queue as _queue

    eng.models.reg(_queue.Queue, lambda e, *a, **k: Queue())
    fp = ArchFile(eng)
    # the REAL constructor runs (file-object branch); the header mode is then chosen through the real setters
    szf = eng.new(eng.cls(PZ, "SevenZipFile"), fp, mode, password=password, header_encryption=(header_mode == "encrypted"))
    szf.attrs["q"] = Queue()
    if header_mode == "raw":
        eng.method(szf, "set_encoded_header_mode", False)
    return szf, fp


def header_items(fp):
    """the items of the header written by the closing sequence: everything written after the last packed blob and
    before the final seek(0); also returns the (symbolic) position where it starts and the signature-header bytes"""
    ops = fp.ops
    last_seek0 = max(i for i, o in enumerate(ops) if o[0] == "seek" and not is_sym(o[1]) and o[1] == 0)
    sig = []
    for o in ops[last_seek0 + 1:]:
        if o[0] == "write":
            sig.extend(o[2].items)
    hdr, start = [], None
    i = last_seek0 - 1
    chunk = []
    while i >= 0 and ops[i][0] == "write" and isinstance(ops[i][2], SBytes):
        chunk.insert(0, ops[i])
        i -= 1
    for o in chunk:
        if start is None:
            start = o[1]
        hdr.extend(o[2].items)
    return hdr, start, sig


class StubPath(Native):
    """a pathlib.Path-like source for SevenZipFile.write(): kind in {'file','dir','link'}; size symbolic"""

    import pathlib as _pl

    isa = (_pl.Path,)

    def __init__(self, name, kind, size, ident, fail=None, mode=None, mtime=None):
        self.name, self.kind, self.size, self.ident, self.fail, self.mode, self.mtime = name, kind, size, ident, fail, mode, mtime

    def as_posix(self, eng):
        return self.name

    def open(self, eng, mode="rb"):
        if self.fail == "open":
            raise ModelRaise("PermissionError", ["EACCES"], cls=PermissionError)
        return _Opened(StubSource(self.size, self.ident, self.fail))

    def __str__(self):
        return self.name


class _Opened(Native):
    def __init__(self, src):
        self.src = src
        self.size, self.ident, self.fail = src.size, src.ident, src.fail

    def __enter__(self, eng):
        return self

    def __exit__(self, eng, *a):
        return None


FILE_ATTRIBUTE_DIRECTORY, FILE_ATTRIBUTE_ARCHIVE, FILE_ATTRIBUTE_REPARSE_POINT = 0x10, 0x20, 0x400
UNIX_EXT = 0x8000


def install_file_info_stub(eng, state):
    """SevenZipFile._make_file_info(path, arcname, dereference) for StubPath sources: what lstat would report is taken
    from the stub (kind, permission bits, mtime); the attribute word is built as the real function builds it
    (that function itself is the subject of the C02 obligations)."""
    import pathlib
    import stat

    def mk(eng, target, arcname=None, dereference=False):
        if getattr(target, "fail", None) == "stat":
            raise ModelRaise("PermissionError", ["EACCES"], cls=PermissionError)
        f = {"origin": target}
        f["filename"] = pathlib.Path(arcname).as_posix() if arcname is not None else target.name
        mode = target.mode if target.mode is not None else 0o644
        if target.kind == "dir":
            f["emptystream"] = True
            f["attributes"] = FILE_ATTRIBUTE_DIRECTORY | UNIX_EXT | (stat.S_IFDIR << 16) | (mode << 16)
        elif target.kind == "link":
            f["emptystream"] = False
            f["attributes"] = FILE_ATTRIBUTE_ARCHIVE | FILE_ATTRIBUTE_REPARSE_POINT | UNIX_EXT | (stat.S_IFLNK << 16) | (mode << 16)
        else:
            f["emptystream"] = False
            f["uncompressed"] = target.size
            f["attributes"] = FILE_ATTRIBUTE_ARCHIVE | UNIX_EXT | (mode << 16)
        t = target.mtime if target.mtime is not None else _fresh_time(eng, state)
        f["creationtime"] = t
        f["lastwritetime"] = t
        f["lastaccesstime"] = t
        return f

    eng.overrides[(PZ, "SevenZipFile._make_file_info")] = mk
    # symlink members store the link target text: only readlink() touches the filesystem; the real
    # Worker._find_link_target (which walks the members registered so far) runs
    # (contract: readlink of a path whose name contains "unreadable" fails with EIO – the link vanished or became
    # unreadable between lstat and readlink)
    def _readlink(eng, path):
        if "unreadable" in str(path):
            raise ModelRaise("OSError", [5, "Input/output error"], cls=OSError)
        return "target/of/" + str(path)

    for mod in (PZ, "py7zr.helpers"):
        eng.overrides[(mod, "readlink")] = _readlink


# ===================================================================================== read side
class LayoutFile(Native):
    """archive file for read sessions: [0,32) signature header bytes | packed area of symbolic length | header items.
    Reads inside byte regions are exact; a read in the packed area returns an opaque blob.  Records every write."""

    isa = (io.IOBase,)

    def __init__(self, eng, sig_items, data_len, hdr_items, hdr_gap=0, name=None):
        self.sig, self.data_len, self.hdr = list(sig_items), data_len, list(hdr_items)
        self.hdr_start = eng.binop(ast.Add(), eng.binop(ast.Add(), 32, data_len), hdr_gap)
        self.pos = 0
        self.writes = []
        self.ops = []
        self.reads = []
        self.name = name
        self.mode = "rb"

    def get_name(self, eng):
        if self.name is None:
            raise ModelRaise("AttributeError", ["name"], cls=AttributeError)
        return self.name

    def seek(self, eng, off, whence=0):
        if whence == 0:
            self.pos = off
        elif whence == 1:
            self.pos = eng.binop(ast.Add(), self.pos, off)
        else:
            raise ModelRaise("Unsupported seek from end")
        self.ops.append(("seek", self.pos))
        return self.pos

    def tell(self, eng):
        return self.pos

    def read(self, eng, n=None):
        p = self.pos
        if not is_sym(p) and p < 32:
            if n is None or is_sym(n):
                raise ModelRaise("Unsupported symbolic read in the signature header")
            r = self.sig[p:p + n]
            self.pos = p + len(r)
            return SBytes(r)
        if eng.branch(eng.compare(ast.Eq(), p, self.hdr_start)):
            total = tokens.byte_len(eng, self.hdr)
            if n is None or eng.branch(eng.compare(ast.GtE(), n, total)):
                self.pos = eng.binop(ast.Add(), p, total)
                return SBytes(self.hdr)
            raise ModelRaise("Unsupported partial header read")
        # packed area (or beyond the end of file: short read)
        self.reads.append((p, n))
        self.pos = eng.binop(ast.Add(), p, n)
        return Blob(n, ("packed", p))

    def write(self, eng, data):
        if isinstance(data, Blob):
            n = data.length
        elif isinstance(data, SBytes):
            n = tokens.byte_len(eng, data.items)
        else:
            raise ModelRaise("TypeError", cls=TypeError)
        self.writes.append((self.pos, data))
        self.ops.append(("write", self.pos, data, n))
        self.pos = eng.binop(ast.Add(), self.pos, n)
        return n

    def close(self, eng):
        return None

    def flush(self, eng):
        return None


def sig_header_items(eng, nho, nhs, hdr_items):
    """a valid 32-byte signature header for (offset, size, crc(header))"""
    from vf.pysym.models import crc_term, to_bytes

    tail = list(to_bytes(eng, nho, 8).items) + list(to_bytes(eng, nhs, 8).items)
    hc = crc_term(eng, CrcVal(hdr_items))
    tail += list(to_bytes(eng, hc, 4).items)
    sc = crc_term(eng, CrcVal(tail))
    return list(b"7z\xbc\xaf\x27\x1c\x00\x04") + list(to_bytes(eng, sc, 4).items) + tail


def open_for_read(eng, hdr_items, data_len, password=None, name=None, mp=False):
    """a SevenZipFile in mode 'r' produced by the real _real_get_contents + Worker construction on a LayoutFile"""
    total = tokens.byte_len(eng, hdr_items)
    sig = sig_header_items(eng, data_len, total, hdr_items)
    import builtins

    fp = LayoutFile(eng, sig, data_len, hdr_items, name=name)
    # the REAL constructor runs: the file-object branch, or - when the archive is opened by name - the path branch with
    # open() handing back the archive file
    prev_open = eng.models.NATIVE.get(id(builtins.open))
    eng.models.reg(builtins.open, lambda e, *a, **k: fp)
    try:
        szf = eng.new(eng.cls(PZ, "SevenZipFile"), name if name is not None else fp, "r", password=password, mp=mp)
    finally:
        if prev_open is not None:
            eng.models.NATIVE[id(builtins.open)] = prev_open
        else:
            eng.models.NATIVE.pop(id(builtins.open), None)
    szf.attrs["q"] = Queue()
    return szf, fp
