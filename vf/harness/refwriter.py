"""Reference *writer* of 7z headers for the reader-side obligations: given a logical archive and a physical layout
choice it emits the header as a list of byte items / NUMBER tokens (values may be z3 terms), following 7zFormat.txt.
It shares no code with py7zr.  The same function emits concrete bytes when `concrete=True` (used by replays).

logical archive: list of entries  {kind: 'f'|'e'|'d'|'l', name, size, crc, mtime (or None), attributes (or None)}
layout: {folders: [n_streams,...] (partition of the non-empty entries in order), ncoders: [..], crc_at: 'sub'|'folder'|'none',
         omit_numunpack: bool, packcrc: bool, packpos, packsizes: [...], dummy: int|None, emptyfile_vector: bool,
         coder_ids: [...]}
"""
from __future__ import annotations

import ast as _ast

from vf.pysym.tokens import Tok

K = dict(END=0, HEADER=1, MAIN=4, FILES=5, PACK=6, UNPACK=7, SUB=8, SIZE=9, CRC=10, FOLDER=11, CUS=12, NUS=13, ES=14, EF=15,
         NAMES=17, CTIME=18, ATIME=19, MTIME=20, ATTRS=21, DUMMY=25)

S_IFDIR, S_IFLNK = 0o040000, 0o120000


def number_bytes(v):
    if v < 0x80:
        return [v]
    for n in range(1, 8):
        if v < (1 << (8 * n + (7 - n))):
            first = (0xFF << (8 - n)) & 0xFF | (v >> (8 * n))
            return [first] + [(v >> (8 * i)) & 0xFF for i in range(n)]
    return [0xFF] + [(v >> (8 * i)) & 0xFF for i in range(8)]


class Out:
    def __init__(self, eng=None, concrete=False):
        self.items, self.eng, self.concrete = [], eng, concrete

    def byte(self, b):
        self.items.append(b)

    def num(self, v):
        if self.concrete:
            self.items.extend(number_bytes(int(v)))
        else:
            self.items.append(Tok(v))

    def fixed(self, v, n):
        if isinstance(v, int):
            self.items.extend((v >> (8 * i)) & 0xFF for i in range(n))
        else:
            from vf.pysym.models import to_bytes

            self.items.extend(to_bytes(self.eng, v, n).items)

    def bits(self, bs):
        cur, k = 0, 0
        for b in bs:
            cur = (cur << 1) | (1 if b else 0)
            k += 1
            if k == 8:
                self.items.append(cur)
                cur, k = 0, 0
        if k:
            self.items.append(cur << (8 - k))

    def defined(self, bs):
        if all(bs):
            self.byte(1)
        else:
            self.byte(0)
            self.bits(bs)

    def utf16(self, s):
        self.items.extend(s.encode("utf-16LE") + b"\x00\x00")


def default_attributes(kind, mode=0o644):
    if kind == "d":
        return 0x10 | 0x8000 | ((S_IFDIR | 0o755) << 16)
    if kind == "l":
        return 0x20 | 0x400 | 0x8000 | ((S_IFLNK | 0o777) << 16)
    return 0x20 | 0x8000 | ((0o100000 | mode) << 16)


def write_header(entries, layout, eng=None, concrete=False):
    o = Out(eng, concrete)
    o.byte(K["HEADER"])
    data = [e for e in entries if e["kind"] in "fl"]
    folders = layout["folders"]
    assert sum(folders) == len(data)
    if folders:
        o.byte(K["MAIN"])
        # PackInfo
        o.byte(K["PACK"])
        o.num(layout.get("packpos", 0))
        o.num(len(layout["packsizes"]))
        o.byte(K["SIZE"])
        for s in layout["packsizes"]:
            o.num(s)
        if layout.get("packcrc"):
            o.byte(K["CRC"])
            pdef = layout.get("packcrc_defined", [True] * len(layout["packsizes"]))
            o.defined(pdef)
            for d, c in zip(pdef, layout["packcrcs"]):
                if d:
                    o.fixed(c, 4)
        o.byte(K["END"])
        # UnpackInfo
        o.byte(K["UNPACK"])
        o.byte(K["FOLDER"])
        o.num(len(folders))
        o.byte(0)
        ids = layout.get("coder_ids") or [b"\x21"]
        for fi, n in enumerate(folders):
            nc = layout["ncoders"][fi]
            o.num(nc)
            for ci in range(nc):
                cid = ids[(fi + ci) % len(ids)]
                props = layout.get("props", {}).get((fi, ci))
                o.byte(len(cid) | (0x20 if props is not None else 0))
                o.items.extend(cid)
                if props is not None:
                    o.num(len(props))
                    o.items.extend(props)
            for ci in range(nc - 1):
                if layout.get("bind_style", "chain") == "chain":   # (InIndex=ci+1, OutIndex=ci): coder 0 decodes first
                    o.num(ci + 1)
                    o.num(ci)
                else:                                               # (InIndex=ci, OutIndex=ci+1): coder 0 decodes last
                    o.num(ci)
                    o.num(ci + 1)
        o.byte(K["CUS"])
        k = 0
        for fi, n in enumerate(folders):
            nc = layout["ncoders"][fi]
            total = 0
            for e in data[k:k + n]:
                total = (total + e["size"]) if eng is None else eng.binop(_ast.Add(), total, e["size"])
            k += n
            inter = layout.get("inter_sizes", {})
            final = nc - 1 if layout.get("bind_style", "chain") == "chain" else 0
            for ci in range(nc):
                # the folder's final output is the out stream that is not the OutIndex of any bind pair
                o.num(total if ci == final else inter.get((fi, ci), 0))
        crc_at = layout.get("crc_at", "sub")
        if crc_at == "folder":
            o.byte(K["CRC"])
            fdef = [n == 1 for n in folders]
            o.defined(fdef)
            k = 0
            for fi, n in enumerate(folders):
                if n == 1:
                    o.fixed(data[k]["crc"], 4)
                k += n
        o.byte(K["END"])
        # SubStreamsInfo
        allone = all(n == 1 for n in folders)
        need_sub = not (allone and layout.get("omit_substreams") and crc_at != "sub")
        if need_sub:
            o.byte(K["SUB"])
            if not (allone and layout.get("omit_numunpack", True)):
                o.byte(K["NUS"])
                for n in folders:
                    o.num(n)
            if any(n > 1 for n in folders):
                o.byte(K["SIZE"])
                k = 0
                for n in folders:
                    for e in data[k:k + max(n - 1, 0)]:      # (n = 0 at k = 0 must not become the slice [0:-1])
                        o.num(e["size"])
                    k += n
            if crc_at != "none":
                # digests for the streams whose CRC is not already known from the folder
                k = 0
                pend = []
                for fi, n in enumerate(folders):
                    if crc_at == "folder" and n == 1:
                        k += n
                        continue
                    pend.extend(data[k:k + n])
                    k += n
                if pend:
                    o.byte(K["CRC"])
                    sdef = [e.get("crc_defined", True) for e in pend]
                    o.defined(sdef)
                    for d, e in zip(sdef, pend):
                        if d or layout.get("crc_for_undefined"):
                            o.fixed(e["crc"], 4)
            o.byte(K["END"])
        o.byte(K["END"])
    if entries or layout.get("files_section", True):
        o.byte(K["FILES"])
        o.num(len(entries))
        es = [e["kind"] in "ed" for e in entries]
        if any(es):
            o.byte(K["ES"])
            o.num((len(entries) + 7) // 8)
            o.bits(es)
            ef = [e["kind"] == "e" for e in entries if e["kind"] in "ed"]
            if any(ef) or layout.get("emptyfile_vector"):
                o.byte(K["EF"])
                o.num((len(ef) + 7) // 8)
                o.bits(ef)
        if layout.get("dummy") is not None:
            o.byte(K["DUMMY"])
            o.items.extend(number_bytes(layout["dummy"]))  # the size is a NUMBER (one raw byte below 128, as 7-Zip writes it)
            o.items.extend([0] * layout["dummy"])
        names = b"".join(e["name"].encode("utf-16LE") + b"\x00\x00" for e in entries)
        o.byte(K["NAMES"])
        o.num(len(names) + 1)
        o.byte(0)
        o.items.extend(names)
        for key, pid in (("mtime", K["MTIME"]), ("ctime", K["CTIME"])):
            tdef = [e.get(key) is not None for e in entries]
            if any(tdef):
                o.byte(pid)
                o.num(2 + (0 if all(tdef) else (len(entries) + 7) // 8) + 8 * sum(tdef))
                o.defined(tdef)
                o.byte(0)
                for e in entries:
                    if e.get(key) is not None:
                        o.fixed(e[key], 8)
        adef = [e.get("attributes") is not None for e in entries]
        if any(adef):
            o.byte(K["ATTRS"])
            o.num(2 + (0 if all(adef) else (len(entries) + 7) // 8) + 4 * sum(adef))
            o.defined(adef)
            o.byte(0)
            for e in entries:
                if e.get("attributes") is not None:
                    o.fixed(e["attributes"], 4)
        o.byte(K["END"])
    o.byte(K["END"])
    return o.items


def seal(header_bytes, packed=b"", gap=b""):
    """concrete archive image: signature header + gap (packpos bytes) + packed streams + header"""
    import struct
    import zlib

    body = gap + packed
    tail = struct.pack("<QQL", len(body), len(header_bytes), zlib.crc32(header_bytes))
    return b"7z\xbc\xaf\x27\x1c\x00\x04" + struct.pack("<L", zlib.crc32(tail)) + tail + body + header_bytes
