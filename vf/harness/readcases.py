"""Shapes of reference-written archives for the reader-side obligations (C04 C06 C09 C10 C12 C18) and the code that
builds them with symbolic sizes / CRCs / timestamps inside engine B."""
from __future__ import annotations

import ast

import z3

from vf.harness import extract as X
from vf.harness import refwriter as W
from vf.pysym import tokens
from vf.pysym.engine import Engine

AI, PZ = "py7zr.archiveinfo", "py7zr.py7zr"

NAMES = ["a.txt", "dir", "dir/b.bin", "c", "dir/sub/e", "f.dat", "g"]


def mk_engine(unroll=2, unwind="assume", modules=(), intmode="int"):
    eng = Engine([AI, PZ, "py7zr.helpers", "py7zr.io"] + list(modules), intmode=intmode, unroll=40, unwind="assert")
    # the decode loop of Worker.decompress is the only loop bounded by assumption (<= unroll decoder calls per member)
    eng.loop_limits[(PZ, "Worker.decompress")] = (unroll, unwind)
    tokens.install(eng, [(AI, "write_uint64", "read_uint64")])
    return eng


def shape_name(pattern, folders, opts):
    o = ",".join("%s=%s" % (k, v) for k, v in sorted(opts.items()))
    return "%s/%s%s" % (pattern, "+".join(map(str, folders)), ("/" + o) if o else "")


def symbols(eng, pattern):
    """symbolic size/crc/mtime per entry (created once, outside the harness)"""
    n = len(pattern)
    return dict(size=[eng.sym_int("size%d" % i, 40) for i in range(n)],
                crc=[eng.sym_int("crc%d" % i, 32) for i in range(n)],
                mtime=[eng.sym_int("mtime%d" % i, 63) for i in range(n)],
                pack=[eng.sym_int("pack%d" % i, 40) for i in range(8)],
                packpos=eng.sym_int("packpos", 40))


def inputs_of(sym, pattern, folders):
    d = {}
    for i, k in enumerate(pattern):
        if k in "fl":
            d["size%d" % i] = sym["size"][i]
            d["crc%d" % i] = sym["crc"][i]
    for j in range(len(folders)):
        d["pack%d" % j] = sym["pack"][j]
    return d


def build(eng, pattern, folders, opts, sym, names=None):
    """-> (entries, layout) with the path assumptions added to the engine"""
    names = names or NAMES
    entries = []
    for i, k in enumerate(pattern):
        e = dict(kind=k, name=names[i], size=0, crc=0)
        if k in "fl":
            e["size"], e["crc"] = sym["size"][i], sym["crc"][i]
            eng.assume(eng.range_cond(e["size"], 40))
            eng.assume(eng.range_cond(e["crc"], 32))
            # a valid archive: the CRC32 of zero bytes is 0
            eng.assume(z3.Implies(eng.lift(e["size"]) == 0, eng.lift(e["crc"]) == 0))
        undefined_attr = opts.get("attrs") == "partial" and i % 2 == 1
        undefined_time = opts.get("times") == "partial" and i % 2 == 0
        e["attributes"] = None if (undefined_attr or opts.get("attrs") == "none") else W.default_attributes(k)
        if undefined_time or opts.get("times") == "none":
            e["mtime"] = None
        else:
            e["mtime"] = sym["mtime"][i]
            eng.assume(eng.range_cond(e["mtime"], 63))
        if opts.get("digests") == "partial" and k in "fl" and sum(1 for c_ in pattern[:i] if c_ in "fl") % 2 == 1:
            e["crc_defined"] = False     # every second data member carries no CRC (digest vector only partly defined)
        if opts.get("ctime"):
            e["ctime"] = eng.sym_int("ctime%d" % i, 63)   # the base also carries creation times
            eng.assume(eng.range_cond(e["ctime"], 63))
        entries.append(e)
    nf = len(folders)
    packs = sym["pack"][:nf]
    for p in packs:
        eng.assume(eng.range_cond(p, 40))
    layout = dict(folders=list(folders), ncoders=[opts.get("ncoders", 1)] * nf, packsizes=packs,
                  crc_at=opts.get("crc_at", "sub"), omit_numunpack=opts.get("omit_numunpack", True),
                  dummy=opts.get("dummy"), emptyfile_vector=opts.get("emptyfile_vector", False),
                  omit_substreams=opts.get("omit_substreams", False),
                  bind_style=opts.get("bind_style", "chain"),
                  inter_sizes=({(fi, ci): opts["inter"] for fi in range(nf) for ci in range(opts.get("ncoders", 1))} if opts.get("inter") else {}),
                  coder_ids=[b"\x21", b"\x03\x01\x01"])
    if opts.get("packcrc"):
        layout["packcrc"] = True
        if opts.get("packcrc_defined"):
            layout["packcrc_defined"] = list(opts["packcrc_defined"])   # digests of the packed streams only partly defined
        layout["packcrcs"] = [eng.sym_int("packcrc%d" % j, 32) for j in range(nf)]
        for c, p in zip(layout["packcrcs"], packs):
            eng.assume(eng.range_cond(c, 32))
            eng.assume(z3.Implies(eng.lift(p) == 0, eng.lift(c) == 0))  # valid archive: CRC32 of zero bytes is 0
    if opts.get("packpos"):
        layout["packpos"] = sym["packpos"]
        eng.assume(eng.range_cond(sym["packpos"], 40))
        eng.assume(eng.compare(ast.GtE(), sym["packpos"], 1))
    return entries, layout


# shapes: (pattern, folder partition of the f/l entries, layout options)
def shapes(tier, max_entries=None):
    base = [
        ("f", [1], {}),
        ("ff", [2], {}),
        ("ff", [1, 1], {}),
        ("fdf", [2], {}),
        ("fef", [1, 1], {"emptyfile_vector": True}),
        ("dff", [1, 1], {"crc_at": "folder"}),
        ("ffd", [2], {"dummy": 3, "attrs": "partial"}),
        ("fff", [2, 1], {"times": "partial"}),
        ("fff", [1, 2], {"packcrc": True}),
        ("lf", [2], {}),
        ("ff", [2], {"dummy": 200}),          # kDummy whose size needs a two-byte NUMBER
        ("fdf", [2], {"attrs": "none"}),      # no attribute property at all: kinds come from the empty-stream vectors
        ("ff", [1, 1], {"crc_at": "folder", "omit_substreams": True}),   # SubStreamsInfo absent
        ("ff", [1, 1], {"packcrc": True, "packcrc_defined": [False, True]}),   # packed-stream digests only partly defined
        ("fff", [2, 1], {"digests": "partial"}),                               # member digests only partly defined
        # two coders bound the other way round: the folder's output is the FIRST coder's (its size is not the last one listed)
        ("ff", [1, 1], {"ncoders": 2, "bind_style": "first-is-final", "inter": 7}),
        ("fdf", [1, 0, 1], {}),   # a folder without any substream (py7zr's own append of a lone directory leaves one)
        ("d", [], {}),
        ("", [], {}),
    ]
    if tier == "thorough":
        base += [
            ("ffdf", [2, 1], {}),
            ("fdff", [2, 1], {}),   # an empty-stream entry between two files of the first folder
            ("ffdf", [1, 2], {}),
            ("fdf", [1, 1], {}),
            ("ffff", [2, 2], {"omit_numunpack": False}),
            ("fff", [1, 1, 1], {"crc_at": "folder"}),
            ("fff", [1, 1, 1], {"crc_at": "none"}),
            ("fef", [2], {"attrs": "none", "times": "none"}),
            ("ff", [2], {"ncoders": 2}),
            ("ff", [1, 1], {"packpos": True}),
            ("ff", [0, 2], {}),     # a member-less folder first / last
            ("ff", [2, 0], {}),
        ]
    return base
