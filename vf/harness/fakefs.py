"""An in-memory POSIX filesystem model and a pathlib.Path stand-in (FakePath) bound in place of pathlib inside the
interpreted py7zr code, so that the REAL _extract / _extract_single / get_sanitized_output_path / is_path_valid run on it.
The model is trusted base for the physical-containment obligation of C03 (stated as such in DESIGN.md).

Semantics modelled: component-wise resolution with symlink following (relative and absolute targets, '..' taken
physically, 40-link limit), mkdir(parents, exist_ok), open('wb') (creates/truncates, follows a final link),
symlink_to, unlink, touch, chmod, utime (follow links), exists/is_dir/is_file."""
from __future__ import annotations

import os
import pathlib
from pathlib import PurePosixPath

from vf.pysym.models import Native
from vf.pysym.values import ModelRaise


class FS:
    def __init__(self):
        self.nodes = {("/",): ("dir",)}
        self.effects = []  # (op, physical location tuple)

    # ---- resolution
    def resolve(self, path, follow_last=True, depth=0):
        """physical location (tuple of names from '/') of an absolute PurePosixPath; the last component need not exist"""
        if depth > 40:
            raise ModelRaise("OSError", ["ELOOP"], cls=OSError)
        parts = list(path.parts)
        assert parts and parts[0] in ("/", "//"), path
        cur = ("/",)
        rest = parts[1:]
        for i, comp in enumerate(rest):
            last = i == len(rest) - 1
            if comp == "..":
                cur = cur[:-1] if len(cur) > 1 else cur
                continue
            if comp == ".":
                continue
            nxt = cur + (comp,)
            node = self.nodes.get(nxt)
            if node is not None and node[0] == "link" and (follow_last or not last):
                tgt = PurePosixPath(node[1])
                base = tgt if tgt.is_absolute() else PurePosixPath(*cur).joinpath(tgt)
                cur = self.resolve(base, True, depth + 1)
                if not last and self.nodes.get(cur, ("missing",))[0] not in ("dir",):
                    if cur not in self.nodes:
                        raise ModelRaise("FileNotFoundError", ["ENOENT"], cls=FileNotFoundError)
                    raise ModelRaise("NotADirectoryError", ["ENOTDIR"], cls=NotADirectoryError)
                continue
            if not last:
                if node is None:
                    raise ModelRaise("FileNotFoundError", ["ENOENT"], cls=FileNotFoundError)
                if node[0] != "dir":
                    raise ModelRaise("NotADirectoryError", ["ENOTDIR"], cls=NotADirectoryError)
            cur = nxt
        return cur

    def realpath(self, path, depth=0):
        """os.path.realpath(strict=False): links of the existing prefix are followed, what does not exist is kept lexically"""
        if depth > 40:
            raise ModelRaise("RuntimeError", ["Symlink loop"], cls=RuntimeError)
        parts = list(path.parts)
        cur = ("/",)
        rest = parts[1:]
        for i, comp in enumerate(rest):
            if comp == "..":
                cur = cur[:-1] if len(cur) > 1 else cur
                continue
            if comp == ".":
                continue
            nxt = cur + (comp,)
            node = self.nodes.get(nxt)
            if node is not None and node[0] == "link":
                tgt = PurePosixPath(node[1])
                base = tgt if tgt.is_absolute() else PurePosixPath(*cur).joinpath(tgt)
                cur = self.realpath(base, depth + 1)
                continue
            cur = nxt
        return cur

    def kind(self, loc):
        n = self.nodes.get(loc)
        return n[0] if n else None

    def record(self, op, loc):
        self.effects.append((op, loc))


class FakePath(Native):
    isa = (pathlib.Path, pathlib.PurePath, os.PathLike)

    def __init__(self, fs, pure, cwd):
        self.fs, self.pure, self.cwd = fs, PurePosixPath(pure), cwd

    # ---------------------------------------------------------------- pure-path part (delegated to PurePosixPath)
    def _mk(self, p):
        return FakePath(self.fs, p, self.cwd)

    def _abs(self):
        return self.pure if self.pure.is_absolute() else PurePosixPath(self.cwd).joinpath(self.pure)

    def __str__(self):
        return str(self.pure)

    def __lt__(self, other):
        return str(self.pure) < str(other.pure)

    def __eq__(self, other):
        return isinstance(other, FakePath) and self.pure == other.pure

    def __hash__(self):
        return hash(self.pure)

    def get_parts(self, eng):
        return self.pure.parts

    def get_parent(self, eng):
        return self._mk(self.pure.parent)

    def get_name(self, eng):
        return self.pure.name

    def is_absolute(self, eng):
        return self.pure.is_absolute()

    def as_posix(self, eng):
        return self.pure.as_posix()

    def joinpath(self, eng, *others):
        return self._mk(self.pure.joinpath(*[o.pure if isinstance(o, FakePath) else o for o in others]))

    def relative_to(self, eng, other):
        try:
            return self._mk(self.pure.relative_to(other.pure if isinstance(other, FakePath) else other))
        except ValueError:
            raise ModelRaise("ValueError", cls=ValueError)

    def get_parents(self, eng):
        return [self._mk(p) for p in self.pure.parents]

    def resolve(self, eng, strict=False):
        loc = self.fs.realpath(self._abs())
        return self._mk(PurePosixPath(*loc))

    # ---------------------------------------------------------------- filesystem part
    def _loc(self, follow_last=True):
        return self.fs.resolve(self._abs(), follow_last)

    def exists(self, eng):
        try:
            return self._loc(True) in self.fs.nodes
        except ModelRaise:
            return False

    def is_dir(self, eng):
        try:
            return self.fs.kind(self._loc(True)) == "dir"
        except ModelRaise:
            return False

    def is_file(self, eng):
        try:
            return self.fs.kind(self._loc(True)) == "file"
        except ModelRaise:
            return False

    def is_symlink(self, eng):
        try:
            return self.fs.kind(self._loc(False)) == "link"
        except ModelRaise:
            return False

    def _os_mkdir(self):
        """os.mkdir: parents are resolved (links followed), the final component is not followed"""
        loc = self._loc(False)
        if loc in self.fs.nodes:
            raise ModelRaise("FileExistsError", ["EEXIST"], cls=FileExistsError)
        if loc[:-1] not in self.fs.nodes:
            raise ModelRaise("FileNotFoundError", ["ENOENT"], cls=FileNotFoundError)
        if self.fs.kind(loc[:-1]) != "dir":
            raise ModelRaise("NotADirectoryError", ["ENOTDIR"], cls=NotADirectoryError)
        self.fs.nodes[loc] = ("dir",)
        self.fs.record("mkdir", loc)

    def mkdir(self, eng, mode=0o777, parents=False, exist_ok=False):
        # pathlib.Path.mkdir
        try:
            self._os_mkdir()
        except ModelRaise as ex:
            if ex.name == "FileNotFoundError":
                if not parents or self.pure.parent == self.pure:
                    raise
                self._mk(self.pure.parent).mkdir(eng, parents=True, exist_ok=True)
                self.mkdir(eng, mode, parents=False, exist_ok=exist_ok)
            elif ex.cls is not None and issubclass(ex.cls, OSError):
                if not exist_ok or not self.is_dir(eng):
                    raise
            else:
                raise
        return None

    def open(self, eng, mode="r", *a, **k):
        loc = self._loc(True)
        if self.fs.kind(loc) == "dir":
            raise ModelRaise("IsADirectoryError", ["EISDIR"], cls=IsADirectoryError)
        if loc[:-1] not in self.fs.nodes:
            raise ModelRaise("FileNotFoundError", ["ENOENT"], cls=FileNotFoundError)
        f = _OpenFile(self, loc)
        if "w" in mode:
            self.fs.nodes[loc] = ("file", f)
            self.fs.record("open-w", loc)
        return f

    def touch(self, eng, *a, **k):
        loc = self._loc(True)
        if loc[:-1] not in self.fs.nodes:
            raise ModelRaise("FileNotFoundError", ["ENOENT"], cls=FileNotFoundError)
        if loc not in self.fs.nodes:
            self.fs.nodes[loc] = ("file", None)
        self.fs.record("touch", loc)

    def symlink_to(self, eng, target, *a, **k):
        loc = self._loc(False)
        if loc in self.fs.nodes:
            raise ModelRaise("FileExistsError", ["EEXIST"], cls=FileExistsError)
        if loc[:-1] not in self.fs.nodes:
            raise ModelRaise("FileNotFoundError", ["ENOENT"], cls=FileNotFoundError)
        self.fs.nodes[loc] = ("link", str(target.pure) if isinstance(target, FakePath) else str(target))
        self.fs.record("symlink", loc)

    def unlink(self, eng, *a, **k):
        loc = self._loc(False)
        if loc not in self.fs.nodes:
            raise ModelRaise("FileNotFoundError", ["ENOENT"], cls=FileNotFoundError)
        if self.fs.kind(loc) == "dir":
            raise ModelRaise("IsADirectoryError", ["EISDIR"], cls=IsADirectoryError)
        del self.fs.nodes[loc]
        self.fs.record("unlink", loc)

    def chmod(self, eng, mode, *a, **k):
        loc = self._loc(True)
        if loc not in self.fs.nodes:
            raise ModelRaise("FileNotFoundError", ["ENOENT"], cls=FileNotFoundError)
        self.fs.record("chmod", loc)
        self.fs.__dict__.setdefault("modes", {})[loc] = mode

    def utime(self, eng, times):
        loc = self._loc(True)
        if loc not in self.fs.nodes:
            raise ModelRaise("FileNotFoundError", ["ENOENT"], cls=FileNotFoundError)
        self.fs.record("utime", loc)
        self.fs.__dict__.setdefault("times", {})[loc] = times

    def stat(self, eng):
        raise ModelRaise("Unsupported stat on FakePath")


class _OpenFile(Native):
    def __init__(self, path, loc):
        self.path, self.loc, self.chunks = path, loc, []

    def write(self, eng, s):
        self.chunks.append(s)
        return eng.models._len(eng, s)

    def seek(self, eng, *a):
        return 0

    def close(self, eng):
        return None

    def __enter__(self, eng):
        return self

    def __exit__(self, eng, *a):
        return None


class PathStr(str):
    """str(FakePath): an ordinary string for the interpreted code that remembers which path object it came from"""

    def __new__(cls, path):
        o = str.__new__(cls, str(path.pure))
        o.path = path
        return o


def install(eng, fs, cwd):
    """pathlib.Path(...) -> FakePath, Path.cwd()/os.getcwd() -> cwd, os.utime -> recorded, str(FakePath) stays a path"""
    def ctor(e, *args):
        parts = [a.pure if isinstance(a, FakePath) else a for a in args]
        if any(not isinstance(p, (str, PurePosixPath)) for p in parts):
            from vf.pysym.values import Unsupported

            raise Unsupported("Path() of %r" % (args,))
        return FakePath(fs, PurePosixPath(*parts), cwd)

    eng.models.reg(pathlib.Path, ctor)
    eng.path_cwd = FakePath(fs, cwd, cwd)
    eng.models.reg(os.getcwd, lambda e: cwd)
    eng.models.reg(os.utime, lambda e, p, times=None, **k: (p.path if isinstance(p, PathStr) else (p if isinstance(p, FakePath) else ctor(e, p))).utime(e, times))
    base_str = eng.models.NATIVE[id(str)]
    eng.models.reg(str, lambda e, *a: PathStr(a[0]) if a and isinstance(a[0], FakePath) else base_str(e, *a))
    return ctor
