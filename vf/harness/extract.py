"""Read-side contract stubs: position-tracking decoder, recording writer factory, symbolic clock.

Decoder contract (stands for SevenZipDecompressor + the codec libraries): decompress(fp, max_length) returns the next
r bytes of the folder's *ideal decoded stream*, r symbolic, 0 <= r <= remaining, r <= max_length when max_length >= 0;
it consumes an arbitrary amount of the packed stream (never more than its declared size).  `progress` selects the
liveness side of the contract: 'live' = whenever output remains, r >= 1 (a working decoder on an intact stream);
'exhausted-aware' = a decoder whose stream is exhausted returns 0 bytes forever (observable as NoProgress after
`stall_limit` consecutive empty answers – turns an infinite loop into a finite outcome).
The CRC of decoded data is the identity of the byte range hashed: CRCF(folder, start, end)."""
from __future__ import annotations

import ast

import z3

from vf.harness.session import Queue
from vf.pysym.models import Native
from vf.pysym.values import ModelRaise, is_sym


class NoProgress(Exception):
    pass


class Chunk(Native):
    """decoded bytes [off, off+n) of folder `folder`'s ideal stream (possibly damaged from `bad_from` on)"""

    def __init__(self, folder, off, n):
        self.folder, self.off, self.n = folder, off, n
        self.items = [self]

    def length(self, eng):
        return self.n


class RangeCrc:
    """running CRC over a contiguous range of a folder's decoded stream"""

    def __init__(self, folder, start, end):
        self.folder, self.start, self.end = folder, start, end

    def as_crc_term(self, eng):
        return range_crc_term(eng, self)


def crcf(eng, folder):
    if eng.intmode == "bv":
        s = z3.BitVecSort(eng.W)
        return z3.Function("CRCF_%s" % folder, s, s, z3.BitVecSort(32))
    return z3.Function("CRCF_%s" % folder, z3.IntSort(), z3.IntSort(), z3.IntSort())


def crc_of_range(eng, folder, start, end):
    """the CRC32 of bytes [start, end) of the folder's ideal decoded stream, as an engine int"""
    t = crcf(eng, folder)(eng.lift(start), eng.lift(end))
    if eng.intmode == "bv":
        return eng._rec(z3.ZeroExt(eng.W - 32, t), 32)
    eng.add_axiom(z3.And(t >= 0, t < 2 ** 32))
    eng.ranges["CRCF_%s" % folder] = (0, 2 ** 32 - 1)
    return t


def range_crc_term(eng, rc):
    return crc_of_range(eng, rc.folder, rc.start, rc.end)


def crc32_model(eng, data, value=0, blocksize=None):
    """calculate_crc32 override for read sessions"""
    from vf.harness.session import Blob

    if isinstance(data, Blob) and isinstance(data.tag, tuple) and data.tag[0] == "packed":
        # bytes [p, p+n) of the archive file's packed area
        p = data.tag[1]
        if isinstance(value, RangeCrc):
            return RangeCrc("P", value.start, eng.binop(ast.Add(), value.end, data.length))
        return RangeCrc("P", p, eng.binop(ast.Add(), p, data.length))
    if isinstance(data, Chunk):
        if isinstance(value, RangeCrc):
            # sequential decoder output: contiguous by construction of the stub
            return RangeCrc(value.folder, value.start, eng.binop(ast.Add(), value.end, data.n))
        return RangeCrc(data.folder, data.off, eng.binop(ast.Add(), data.off, data.n))
    return eng.models._crc32(eng, data, value)


def install_crc(eng):
    eng.overrides[("py7zr.helpers", "calculate_crc32")] = crc32_model


class StubDecompressor(Native):
    def __init__(self, eng, world, folder_index, packsize, crc, fresh):
        self.eng, self.world, self.k = eng, world, folder_index
        self.input_size = packsize
        self.consumed = 0
        self.produced = 0
        self.crc = crc
        self.fresh = fresh
        self.stalls = 0
        self.calls = 0
        self.digest_range = None

    def decompress(self, eng, fp, max_length=-1):
        w = self.world
        self.calls += 1
        if self.calls == 1:
            w.read_starts.append((self.k, fp.tell(eng)))  # where this folder's packed stream is read from
        total = w.folder_total[self.k]
        r = self.fresh("r")
        eng.assume(eng.compare(ast.GtE(), r, 0))
        remaining = eng.binop(ast.Sub(), total, self.produced)
        eng.assume(eng.compare(ast.LtE(), r, remaining))
        if not (not is_sym(max_length) and max_length < 0):
            eng.assume(z3.Or(eng.lift(max_length) < 0, eng.lift(r) <= eng.lift(max_length)))
        if w.progress != "adversarial":
            # a working decoder on an intact stream makes progress whenever it is asked for >= 1 byte and output remains
            eng.assume(z3.Implies(z3.And(eng.lift(remaining) > 0, eng.lift(max_length) != 0), eng.lift(r) >= 1))
        if w.progress == "exhausted-aware":
            # an exhausted decoder answers with nothing, forever: count it so that a spin becomes a finite outcome
            if eng.branch(eng.compare(ast.LtE(), remaining, 0)):
                self.stalls += 1
                if self.stalls >= w.stall_limit and w.consume == "all-at-once":
                    raise NoProgress("decoder of folder %d is exhausted and was asked %d more times" % (self.k, self.stalls))
        if w.consume == "all-at-once":
            c = eng.binop(ast.Sub(), self.input_size, self.consumed)  # the whole packed stream is read by the first call
        else:
            c = self.fresh("c")
            eng.assume(eng.compare(ast.GtE(), c, 0))
            eng.assume(eng.compare(ast.LtE(), eng.binop(ast.Add(), self.consumed, c), self.input_size))
        if w.progress == "adversarial" and eng.branch(eng.compare(ast.Eq(), r, 0)) and eng.branch(eng.compare(ast.Eq(), c, 0)):
            # nothing produced, nothing consumed: the caller's loop state is unchanged by this step
            self.stalls += 1
            if self.stalls >= 4:
                raise NoProgress("decoder of folder %d returned nothing and consumed nothing %d times in a row" % (self.k, self.stalls))
        self.consumed = eng.binop(ast.Add(), self.consumed, c)
        fp.seek(eng, c, 1)
        ch = Chunk(self.k, self.produced, r)
        self.produced = eng.binop(ast.Add(), self.produced, r)
        w.decoded.append((self.k, ch.off, r))
        return ch

    def check_crc(self, eng):
        # folder-level CRC covers everything produced so far
        self.world.folder_crc_checked.append((self.k, self.produced))
        return eng.compare(ast.Eq(), self.crc, range_crc_term(eng, RangeCrc(self.k, 0, self.produced)))

    def get_digest(self, eng):
        return RangeCrc(self.k, 0, self.produced)


class SeqThread(Native):
    """threading.Thread / multiprocessing.Process stand-in: start() runs the target to completion at once (ONE schedule:
    it shows what each worker is asked to do, not how workers interleave)"""

    def __init__(self, target=None, args=(), kwargs=None, daemon=None):
        self.target, self.args, self.kwargs = target, tuple(args), kwargs or {}
        self.started = self.joined = False

    def start(self, eng):
        self.started = True
        f = self.target
        name = getattr(getattr(f, "func", f), "qualname", "")
        if name.endswith("reporter"):
            return None  # the progress reporter thread is examined separately (C18)
        eng.call_value(f, list(self.args), dict(self.kwargs))

    def join(self, eng, timeout=None):
        self.joined = True

    def is_alive(self, eng):
        return False


class SharedQueue(Native):
    """multiprocessing.Queue stand-in: shared between parent and child (unlike a queue.Queue given to a process)"""

    import queue as _q

    def __init__(self):
        self.items = []

    def put(self, eng, x, *a, **k):
        self.items.append(x)

    def put_nowait(self, eng, x):
        self.items.append(x)

    def empty(self, eng):
        return not self.items

    def get(self, eng, *a, **k):
        if not self.items:
            raise ModelRaise("Empty", cls=self._q.Empty)
        return self.items.pop(0)

    def get_nowait(self, eng):
        return self.get(eng)


class SeqProcess(SeqThread):
    """multiprocessing.Process stand-in: like SeqThread, plus the one thing that distinguishes a process here - the child
    works on COPIES of its arguments; a plain queue.Queue handed to it is not shared with the parent (only multiprocessing's
    own primitives are).  What the child does to files is, of course, visible."""

    def start(self, eng):
        from vf.harness.session import Queue as _PlainQueue

        self.args = tuple(ExcQueue() if isinstance(a, ExcQueue) else (_PlainQueue() if isinstance(a, _PlainQueue) else a) for a in self.args)
        return SeqThread.start(self, eng)


class ExcQueue(Native):
    import queue as _q

    isa = (_q.Queue,)

    def __init__(self):
        self.items = []

    def put(self, eng, x):
        self.items.append(x)

    def put_nowait(self, eng, x):
        self.items.append(x)

    def empty(self, eng):
        return len(self.items) == 0

    def get(self, eng, *a, **k):
        if not self.items:
            raise ModelRaise("Empty", cls=self._q.Empty)
        return self.items.pop(0)

    def get_nowait(self, eng):
        return self.get(eng)


class World:
    """per-path bookkeeping shared by the read-side stubs"""

    def __init__(self, eng, progress="live", stall_limit=3, consume="arbitrary"):
        self.eng, self.progress, self.stall_limit, self.consume = eng, progress, stall_limit, consume
        self.folder_total = {}
        self.decoded = []
        self.folder_crc_checked = []
        self.created = []  # StubOut in creation order
        self.decoders = []
        self.read_starts = []
        self.nfresh = 0

    def fresh(self, what, bits=40):
        self.nfresh += 1
        return self.eng.sym_int("%s!%d" % (what, self.nfresh), bits)


class StubOut(Native):
    def __init__(self, name):
        self.name = name
        self.chunks = []
        self.pos_resets = 0

    def write(self, eng, s):
        self.chunks.append(s)
        return eng.models._len(eng, s)

    def seek(self, eng, off, whence=0):
        self.pos_resets += 1
        return 0

    def flush(self, eng):
        return None

    def size(self, eng):
        return 0

    def read(self, eng, n=None):
        return eng.mkbytes(b"")


class StubFactory(Native):
    from py7zr.io import WriterFactory as _WF

    isa = (_WF,)

    def __init__(self, world):
        self.world = world

    def create(self, eng, filename):
        o = StubOut(filename)
        self.world.created.append(o)
        return o


def install_read_stubs(eng, world, memory_limit=None):
    """SevenZipDecompressor(...) -> StubDecompressor; get_memory_limit() -> symbolic >= 1; time.time() -> 0.0"""
    import time

    folders_seen = {}

    def mkdec(eng_, coders, packsize, unpacksizes, crc, password=None, blocksize=None):
        # identify the folder by the identity of its coder list (set up by the harness)
        k = world.folder_of_coders(coders)
        d = StubDecompressor(eng_, world, k, packsize, crc, world.fresh)
        world.decoders.append(d)
        return d

    eng.class_models[("py7zr.compressor", "SevenZipDecompressor")] = mkdec
    lim = memory_limit

    def memlimit(eng_):
        nonlocal lim
        if lim is None:
            lim = eng_.sym_int("memlimit", 40)
        eng_.assume(eng_.compare(ast.GtE(), lim, 1))
        eng_.assume(eng_.range_cond(lim, 40))
        return lim

    import builtins
    import multiprocessing
    import queue
    import threading

    eng.models.reg(threading.Thread, lambda e_, **k: SeqThread(**k))
    eng.models.reg(multiprocessing.Process, lambda e_, **k: SeqProcess(**k))
    eng.models.reg(multiprocessing.Queue, lambda e_, *a, **k: SharedQueue())
    eng.models.reg(queue.Queue, lambda e_, *a: ExcQueue())

    def open_by_name(e_, name, mode="r", *a, **k):
        # the parallel branch re-opens the archive by file name: an independent handle on the same layout
        return world.reopen(e_)

    eng.models.reg(builtins.open, open_by_name)
    eng.overrides[("py7zr.properties", "get_memory_limit")] = memlimit
    eng.models.reg(time.time, lambda eng_: 0)
    install_crc(eng)


def setup_read(eng, entries, layout, progress="live", name=None, password=None, stall_limit=3, intact=True,
               consume="arbitrary", mp=False):
    """open a reference-written archive through the real _real_get_contents and attach the read-side stubs"""
    from vf.harness import refwriter as W
    from vf.harness.session import open_for_read

    world = World(eng, progress, stall_limit, consume)
    install_read_stubs(eng, world)
    items = W.write_header(entries, layout, eng=eng)
    data_len = layout.get("packpos", 0)
    for p in layout.get("packsizes", []):
        data_len = eng.binop(ast.Add(), data_len, p)
    szf, fp = open_for_read(eng, items, data_len, password=password, name=name, mp=mp)
    world.items = items
    from vf.harness.session import LayoutFile

    world.handles = [fp]

    def reopen(e_):
        h = LayoutFile(e_, fp.sig, fp.data_len, fp.hdr, name=fp.name)
        world.handles.append(h)
        return h

    world.reopen = reopen
    world.pack_start = {}
    pos = eng.binop(ast.Add(), 32, layout.get("packpos", 0))
    for j, p in enumerate(layout.get("packsizes", [])):
        world.pack_start[j] = pos
        pos = eng.binop(ast.Add(), pos, p)
    # ideal decoded stream of every folder and the member ranges the format assigns
    data = [e for e in entries if e["kind"] in "fl"]
    k = 0
    world.member_range = {}
    idx = {id(e): i for i, e in enumerate(entries)}
    for fi, n in enumerate(layout["folders"]):
        off = 0
        for e in data[k:k + n]:
            world.member_range[idx[id(e)]] = (fi, off, e["size"])
            off = eng.binop(ast.Add(), off, e["size"])
        world.folder_total[fi] = off
        k += n
    hdr = szf.attrs["header"]
    ms = hdr.attrs.get("main_streams")
    world.coder_ids = {}
    if ms is not None:
        for fi, fo in enumerate(ms.attrs["unpackinfo"].attrs["folders"]):
            world.coder_ids[id(fo.attrs["coders"])] = fi
    world.folder_of_coders = lambda coders: world.coder_ids[id(coders)]
    if intact and layout.get("packcrc"):
        for j, c in enumerate(layout["packcrcs"]):
            if layout.get("packcrc_defined", [True] * len(layout["packcrcs"]))[j]:
                st = world.pack_start[j]
                eng.assume(eng.compare(ast.Eq(), crc_of_range(eng, "P", st, eng.binop(ast.Add(), st, layout["packsizes"][j])), c))
    if intact:
        for i, (fi, off, size) in world.member_range.items():
            e = entries[i]
            eng.assume(eng.compare(ast.Eq(), crc_of_range(eng, fi, off, eng.binop(ast.Add(), off, size)), e["crc"]))
    return szf, fp, world


def delivered(world):
    """name -> list of (folder, off, n) chunks written to each created product"""
    out = {}
    for o in world.created:
        out.setdefault(o.name, []).append([(c.folder, c.off, c.n) for c in o.chunks])
    return out
