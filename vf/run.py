"""Driver: python -m vf.run <ID> [--tier quick|thorough] | --replay <path>"""
import argparse
import importlib
import json
import os
import subprocess
import sys
import time

from vf.common import CEX, ERROR, HOLDS, INCONCLUSIVE, PY, VERIF, load_known, match_known, run_units, write_evidence


def do_replay(path):
    env = dict(os.environ)
    repo = os.environ.get("VERIF_REPO")
    # replays import the same py7zr tree the obligations were generated from
    env["PYTHONPATH"] = (repo + ":" + VERIF) if repo and repo != "/repo" else VERIF
    p = subprocess.run([PY, "-m", "vf.replay", path], capture_output=True, text=True, env=env, cwd=VERIF, timeout=900)
    out = (p.stdout + p.stderr).strip()
    return p.returncode == 0, out[-1500:]


def main():
    ap = argparse.ArgumentParser()
    ap.add_argument("prop", nargs="?")
    ap.add_argument("--tier", default=os.environ.get("VERIF_TIER", "quick"))
    ap.add_argument("--replay")
    ap.add_argument("--only", help="substring filter on obligation names (debugging)")
    ap.add_argument("--jobs", type=int)
    a = ap.parse_args()
    if a.replay:
        ok, out = do_replay(a.replay)
        print(out)
        sys.exit(0 if ok else 3)
    prop = a.prop.upper()
    tier = a.tier if a.tier in ("quick", "thorough") else "quick"
    seed = int(os.environ.get("VERIF_SEED", "0") or 0)
    t0 = time.time()
    mod = importlib.import_module("vf.props." + prop.lower())
    if tier == "thorough":
        os.environ.setdefault("VERIF_CROSSCHECK", "1")   # decisive queries are re-decided by a second solver (workers inherit)
    units = mod.units(tier)
    if a.only:
        units = [u for u in units if a.only in u.name]

    def log(r):
        print("  [%s] %-13s %s  paths=%d queries=%d solver=%.1fs wall=%.1fs %s" % (
            prop, r.verdict, r.name, r.paths, r.queries, r.solver_s, r.wall_s,
            ("" if r.verdict == HOLDS else (r.note or "")[:300].replace("\n", " | "))), flush=True)

    results = run_units(units, jobs=a.jobs, log=log)
    known = load_known()
    violations, inconclusive, spurious, known_lines = 0, 0, 0, []
    seen_known = set()
    rdir = os.path.join(os.environ.get("VERIF_REPLAY_DIR") or os.path.join(VERIF, "replays"), prop)
    import shutil

    shutil.rmtree(rdir, ignore_errors=True)
    for r in results:
        if r.verdict in (INCONCLUSIVE, ERROR):
            inconclusive += 1
        if r.reach_ok is False:
            inconclusive += 1
            print("  [%s] VACUOUS %s: reachability twin unsatisfiable (harness error)" % (prop, r.name))
        for i, c in enumerate(r.cex):
            os.makedirs(rdir, exist_ok=True)
            path = os.path.join(rdir, "%s_%d.json" % (r.name.replace("/", "_").replace(" ", "_"), i))
            with open(path, "w") as f:
                json.dump({"property": prop, "obligation": r.name, "signature": c.get("signature"),
                           "witness": c.get("witness"), "replay": c.get("replay"), "detail": c.get("detail")}, f, indent=1)
            c["replay_path"] = path
            if c.get("replay"):
                ok, out = do_replay(path)
            else:
                ok, out = False, "no replay recipe"
            c["reproduced"] = ok
            c["replay_output"] = out
            if not ok:
                spurious += 1
                print("  [%s] SPURIOUS %s: counterexample did not reproduce on the real code: %s | %s" % (
                    prop, r.name, json.dumps(c.get("witness"))[:300], out[-300:]))
                continue
            k = match_known(prop, c.get("signature") or {}, known)
            if k is not None:
                c["known"] = k["id"]
                os.remove(path)
                if k["id"] not in seen_known:
                    seen_known.add(k["id"])
                    line = "KNOWN-FINDING: property=%s %s" % (prop, k["what"])
                    known_lines.append(line)
                    print(line)
            else:
                violations += 1
                print("  witness: %s" % json.dumps(c.get("witness"))[:600])
                print("  replay : %s" % out[-600:])
                print("VIOLATION property=%s replay=%s" % (prop, path))
    wall = time.time() - t0
    if not a.only:   # a filtered (debugging) run covers part of the obligations: it never replaces the evidence file
        write_evidence(prop, tier, seed, results, wall, violations,
                       extra_assumptions=getattr(mod, "ASSUMPTIONS", ()), known_lines=known_lines)
    held = sum(1 for r in results if r.verdict == HOLDS)
    print("[%s] tier=%s obligations=%d held=%d violations=%d inconclusive=%d spurious=%d wall=%.1fs" % (
        prop, tier, len(results), held, violations, inconclusive, spurious, wall))
    if violations:
        sys.exit(1)
    if inconclusive or spurious:
        sys.exit(2)
    sys.exit(0)


if __name__ == "__main__":
    main()
