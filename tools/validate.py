import json, sys, glob, jsonschema
def v(a,b):
    try: jsonschema.validate(a,b)
    except jsonschema.ValidationError as e: print('INVALID', list(e.absolute_path), e.message[:300]); sys.exit(1)
v(json.load(open('MANIFEST.json')), json.load(open('/root/.vp/MANIFEST.schema.json')))
for f in glob.glob('evidence/*.json'):
    v(json.load(open(f)), json.load(open('/root/.vp/EVIDENCE.schema.json')))
    print('ok', f)
print('manifest ok')
