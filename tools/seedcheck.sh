#!/bin/bash
# tools/seedcheck.sh <worktree-id> <n> <seed-name> "<property ids to run>"  – confirm a seeded change, then run the checks against it
set -u
ID=$1; N=$2; NAME=$3; PROPS=$4
WT=/tmp/seed/$ID
cd $WT || exit 9
git reset -q --hard ; git apply out/mut$N.diff 2>/dev/null || git apply --3way out/mut$N.diff >/dev/null 2>&1 || { echo "[$NAME] APPLY FAILED (does not apply to the current HEAD)"; git reset -q --hard; exit 9; }
git diff HEAD > /tmp/seed/$NAME.rebased.diff
PYTHONPATH=$WT /venv/bin/python out/demo$N.py > /tmp/seed/$NAME.demo_mut.log 2>&1; D1=$?
if [ -z "${SKIP_TESTS:-}" ]; then
/venv/bin/python -m pytest -q -p no:cacheprovider --timeout=900 > /tmp/seed/$NAME.tests.log 2>&1; T=$?
else T=skipped; fi
TS=$(grep -E "passed|failed" /tmp/seed/$NAME.tests.log | tail -1)
git reset -q --hard ; rm -f tests/data/test_multiple.7z
PYTHONPATH=$WT /venv/bin/python out/demo$N.py > /tmp/seed/$NAME.demo_clean.log 2>&1; D0=$?
echo "[$NAME] demo with mutation: exit $D1 ; tests: rc=$T ($TS) ; demo clean: exit $D0"
mkdir -p /verif/seeded/$NAME
cp /tmp/seed/$NAME.rebased.diff /verif/seeded/$NAME/patch.diff; cp out/demo$N.py /verif/seeded/$NAME/demo.py
# run the checks against the mutated worktree (same as applying the patch to /repo, without disturbing it)
cd $WT && git apply /tmp/seed/$NAME.rebased.diff || { echo "[$NAME] APPLY FAILED"; exit 9; }
cd /verif
for P in $PROPS; do
  VERIF_EVIDENCE_DIR=/tmp/seed/evidence/$NAME VERIF_REPLAY_DIR=/tmp/seed/replays/$NAME VERIF_REPO=$WT PYTHONPATH=$WT ./vcheck $P > /tmp/seed/$NAME.$P.log 2>&1; RC=$?
  echo "[$NAME] vcheck $P exit=$RC: $(grep -c '^VIOLATION' /tmp/seed/$NAME.$P.log) violations; $(tail -1 /tmp/seed/$NAME.$P.log)"
done
cd $WT && git reset -q --hard
