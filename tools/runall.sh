#!/bin/bash
# run every registered check (quick by default) on /repo and summarise; evidence is rewritten by each run
cd "$(dirname "$0")/.."
TIER=${1:-quick}
for P in $(python3 -c "import json;print(' '.join(c['property_id'] for c in json.load(open('MANIFEST.json'))['checks']))"); do
  S=$(date +%s)
  timeout 7200 ./vcheck $P --tier $TIER > /tmp/vf_$P.$TIER.log 2>&1; RC=$?
  echo "$P rc=$RC $(( $(date +%s) - S ))s :: $(tail -1 /tmp/vf_$P.$TIER.log) :: known=$(grep -c '^KNOWN-FINDING' /tmp/vf_$P.$TIER.log)"
done
