#!/usr/bin/env python3
"""Regenerate MANIFEST.json from tools/manifest_src.py (keeps it valid and in step with the checks that exist)."""
import json, os, sys
HERE = os.path.dirname(os.path.dirname(os.path.abspath(__file__)))
sys.path.insert(0, os.path.join(HERE, "tools"))
import manifest_src as S

props = [json.loads(l)["id"] for l in open(os.path.join(HERE, "properties.jsonl"))]
checks = []
for pid in props:
    c = S.CHECKS.get(pid)
    if not c or not os.path.exists(os.path.join(HERE, "vf", "props", pid.lower() + ".py")):
        continue
    checks.append({
        "property_id": pid,
        "quick_cmd": "./vcheck %s --tier quick" % pid,
        "thorough_cmd": "./vcheck %s --tier thorough" % pid,
        "evidence_file": "evidence/%s.json" % pid,
        "replay_cmd_template": "./vcheck --replay {path}",
        "engine": c["engine"],
        "level_claimed": {"category": "model_checking", "text": c["text"], "design_ref": c["ref"]},
        "level_note": c["note"],
        "technique": c["technique"],
    })
claimed = {c["property_id"] for c in checks}
na = [{"property_id": p, "reason": S.NOT_APPLICABLE.get(p, S.NOT_YET)} for p in props if p not in claimed]
m = {
    "version": 1,
    "setup_cmd": "./setup.sh",
    "hooks": {"guard": "PY7ZR_VERIF", "enable": "no hooks are needed: stubs are injected from outside by rebinding module "
              "names / duck-typed objects; the variable is reserved", "baseline_off_cmd":
              "cd /repo && /venv/bin/python -m pytest -ra -q -p no:cacheprovider --timeout=900 --continue-on-collection-errors",
              "source_commits": [], "add_only": True},
    "engines": S.ENGINES,
    "checks": checks,
    "not_applicable": na,
    "notes": S.NOTES,
}
json.dump(m, open(os.path.join(HERE, "MANIFEST.json"), "w"), indent=1)
print("claimed:", sorted(claimed), "not applicable:", [x["property_id"] for x in na])
