#!/usr/bin/env python3
"""Build seeded/<name>/meta.json from the seed-check log (tools/seedcheck.sh output)."""
import json, os, re, sys
LOGS = sys.argv[1:]
NEEDS = {
 "C01-decomp-pos-not-reset": ("C01", "a decoder that ignores max_length (zstd/deflate/copy/brotli/BCJ) and a solid folder in which one member leaves a remainder in the carry buffer, another is served wholly from it, and a later one crosses a 1 MiB read block"),
 "C01-names-size-astral": ("C01", "a member name containing a non-BMP character (the Names property size counts code points instead of UTF-16 units)"),
 "C07-names-size-astral": ("C07", "a member name containing a non-BMP character; py7zr's own reader does not notice, an independent reader does"),
 "C07-numunpack-only-when-multi": ("C07", "a session that adds only a directory (a folder with zero streams and no folder with more than one)"),
 "C09-emptyfile-forgets-skips": ("C09", "an empty FILE (not a directory) in the middle of a solid block, selected together with a later data member while an earlier one is not selected"),
 "C09-folder-ids-fallback": ("C09", "a multi-folder archive with a stream-less entry between two data members of one folder, and a target behind that gap"),
 "C15-last-index-before-write": ("C15", "the failing call is the last data write of the session and at least one member precedes it"),
 "C15-rollback-oserror-only": ("C15", "a source that fails with an exception that is not an OSError (e.g. ValueError from a closed file), followed by another write"),
 "C06-parallel-ignores-packpos": ("C06", "PackPos > 0 and >= 2 folders and the archive opened by file name (thread-parallel branch)"),
 "C06-dummy-raw-byte": ("C06", "a kDummy padding record of >= 128 bytes (its size needs a multi-byte NUMBER) before the Names property"),
 "C08-append-ignores-packpos": ("C08", "a base archive with PackPos > 0 (written by another program), then any append"),
 "C08-write-times-missing-key": ("C08", "a foreign base archive without any LastWriteTime property, then any append"),
 "C12-parallel-drops-skip-notarget": ("C12", "archive with >= 2 folders, not encrypted, opened by path, a damaged member, testzip()"),
 "C12-testzip-reset-in-finally": ("C12", "extract/extractall followed by testzip() without reset()"),
 "C04-seq-multifolder-drops-skip-notarget": ("C04", "archive with >= 2 folders read through the sequential branch (stream or password), damage inside a packed stream, testzip()"),
 "C04-memio-exit-swallows": ("C04", "a damaged packed stream read through the writer-factory API (the CRC error is raised inside a with-block whose __exit__ returns a truthy value)"),
 "C03-commonprefix-containment": ("C03", "a destination given, and a member (or link target) that lands in a SIBLING of the destination whose name begins with the destination's own name (dest vs dest_sib): containment tested by string prefix"),
 "C03-link-gate-drops-parent": ("C03", "a symlink member d directories below the destination whose relative target climbs exactly d+1 levels (up -> ..), followed by a member whose name goes through that link"),
 "C16-dotdot-test-on-joined-path": ("C16", "a name that climbs above the root and re-enters through components equal to the tail of the internal probe directory (../dafj08sajfa/x)"),
 "C16-strip-one-separator": ("C16", "an arcname (or source path used as arcname) with two or more leading separators (//tmp/x): only one is stripped, the rest is still absolute"),
 "C10-is-solid-first-folder-only": ("C10", "several folders of which the FIRST holds one stream while a LATER one holds more than one"),
 "C10-needs-password-overwritten": ("C10", "an archive without any AES coder opened WITH a password: needs_password() must stay true"),
 "C11-empty-password-not-encrypted": ("C11", "password is the EMPTY string and filters left at the default: the body is written unencrypted"),
 "C11-iv-default-argument": ("C11", "two AES coders created in one interpreter process (IV drawn once, as a default argument evaluated at definition time)"),
 "C14-lenient-fixed-reads": ("C14", "the process dies while the first bytes of a create session are written: a file of 6, 7 or 8 bytes opens as an empty archive"),
 "C14-skeleton-seeks-over-fields": ("C14", "a create session on a file object that still holds an older, longer valid archive: the old start header is never invalidated"),
 "C05-stall-rule-needs-fp-before-end": ("C05", "packed stream completely present and consumed while the header declares more output than it yields, coder that answers b'' at end of input"),
 "C05-lzma1-drops-max-length": ("C05", "a folder (or encoded header) using LZMA1 whose packed stream expands to far more than the header declares"),
 "C17-write-uint64-byte-count": ("C17", "a value of bit length 56 (2^55 <= v < 2^56): the NUMBER writer raises ValueError"),
 "C17-names-size-astral": ("C17", "a member name with an astral-plane character: the Names property size is 2 bytes short per such character"),
 "C19-dunits-without-b": ("C19", "a volume size with a 'b'/'B' suffix, which the validation pattern accepts"),
 "C19-seq-multifolder-testzip-skips": ("C19", ">= 2 folders, archive opened from a file object (as the CLI does), damaged packed data: 't' exits 0"),
 "C02-link-in-postpass": ("C02", "a symbolic link stored AFTER its target (file or directory): the post-pass utime/chmod follows the link and stamps the link's mode 0777 and mtime onto the target"),
 "C02-deref-dirlink-lstat": ("C02", "dereference=True and a symlink whose target is a directory with a mode other than 0777: the directory is stored with the link's lstat()"),
 "C18-update-counter-not-reset": ("C18", "a member decoded in more than one pass (beyond one read block / memory-limit chunk) with at least one second between passes"),
 "C18-post-after-early-return": ("C18", "a callback together with in-memory delivery (factory): the 'post' event is never queued"),
 "C20-limit-only-first-stage": ("C20", "a coder chain whose expanding stage is not the first (7zAES + LZMA2/LZMA/BZip2/PPMd) and a highly compressible member"),
 "C20-compress-reads-rest-at-once": ("C20", "creating an archive with a member larger than one read block (only memory shows it: the archive is byte-identical)"),
 "C08-implicit-sizes-first-folder-only": ("C08", "a base archive with two or more single-stream folders and implicit substream sizes (create; append one member), then a session that appends two or more data members: only the first folder's size is made explicit, the new sizes land on the wrong members"),
 "C10-method-names-dedupe-chains": ("C10", "two folders whose coder chains have the same length and the same first coder but differ behind it (DELTA+LZMA2 then BCJ+LZMA2): the summary omits the methods of the later chain"),
 "C14-placeholder-valid-empty-header": ("C14", "the process dies in a create session after the placeholder and before close() rewrites the signature header: the placeholder is a VALID empty start header, the torn file opens as an empty archive"),
 "C15-readlink-failure-swallowed": ("C15", "write() of a symlink whose readlink fails after lstat succeeded (link vanished / unreadable in between): the error is swallowed and a member with an empty target is stored"),
 "C09-check-skips-unselected-symlink": ("C09", "an UNSELECTED symbolic-link member stored before a selected member of the same solid block: its bytes are not consumed, the next member is read from the wrong position (CrcError)"),
 "C12-reset-clears-first-folder-only": ("C12", "an archive with two or more folders and the sequence decode; reset(); decode: folders after the first keep their exhausted decoder"),
 "C16-canonical-keeps-dotdot-after-one": ("C16", "a name that stays inside but has '..' straight after one leading component (a/../x, a/..): writestr/writef reject it"),
}
NOTES = {
 "C03-commonprefix-containment": "caught (exit 1) while /repo still had the purely lexical containment; the later repair F29 adds a physical check behind the lexical one, which makes this slip harmless: at the final HEAD the agent's own demonstration passes with the change applied, so it no longer breaks the property (the final run shows the lexical obligation's counterexamples as not reproducing)",
 "C03-link-gate-drops-parent": "caught (exit 1) while /repo still had the purely lexical link gate; the repair F29 rewrote that very line (the patch no longer applies) and backs it with a physical check",
}
res = {}
for line in [l for f in LOGS for l in open(f)]:
    m = re.match(r"\[([^\]]+)\] demo with mutation: exit (\d+) ; tests: rc=(\S+) \((.*?)\) ; demo clean: exit (\d+)", line)
    if m:
        if m.group(3) == "skipped" and "confirm" in res.get(m.group(1), {}):
            continue   # a re-run of the checks only: keep the confirmation that includes the test-suite run
        res.setdefault(m.group(1), {})["confirm"] = dict(demo_with_change_exit=int(m.group(2)), tests_rc=m.group(3), tests_summary=m.group(4), demo_clean_exit=int(m.group(5)))
    m = re.match(r"\[([^\]]+)\] vcheck (\S+) exit=(\d+): (\d+) violations; (.*)", line)
    if m:
        res.setdefault(m.group(1), {}).setdefault("checks", []).append(dict(check=m.group(2), exit=int(m.group(3)), violations=int(m.group(4)), summary=m.group(5).strip()))
base = os.path.join(os.path.dirname(os.path.dirname(os.path.abspath(__file__))), "seeded")
for name, r in res.items():
    prop, needs = NEEDS.get(name, ("?", "?"))
    d = os.path.join(base, name)
    os.makedirs(d, exist_ok=True)
    caught = [c["check"] for c in r.get("checks", []) if c["exit"] == 1]
    meta = dict(name=name, breaks_property=prop, needs_to_manifest=needs, origin="independent sub-agent given only the property text and a scratch worktree",
                confirmed=r.get("confirm"), ran=["git -C <scratch worktree at /repo HEAD> apply patch.diff", "/venv/bin/python -m pytest -q -p no:cacheprovider --timeout=900   (suite still passes)",
                     "/venv/bin/python demo.py   (exit 1 with the change, exit 0 without)", "VERIF_REPO=<worktree> ./vcheck <ID> --tier quick   (same as applying the patch to /repo)"],
                checks=r.get("checks", []), caught_by=caught, caught=bool(caught))
    if name in NOTES:
        meta["note"] = NOTES[name]
    meta["checks_history_note"] = ("'checks' lists every run in order, from the first attempt to the final pass against the final "
                                   "/repo HEAD and the final checks; exit 1 = reported as VIOLATION, 2 = found symbolically but the "
                                   "replay did not reproduce at that time (then strengthened), 0 = missed at that time")
    json.dump(meta, open(os.path.join(d, "meta.json"), "w"), indent=1)
    print(name, "caught by", caught or "NOTHING")
