NOT_YET = ("no solver-based obligation for this property is registered at this commit (see DESIGN.md §4 for the "
           "planned encoding); not claimed")
NOT_APPLICABLE = {
    "C13": "quantifies over thread/process interleavings; neither CrossHair nor the AST interpreter executes Python "
           "threads or multiprocessing symbolically, and a sequential stub would decide one schedule only (DESIGN §4 C13); two "
           "defects in its neighbourhood that need no schedule are decided elsewhere: errors of worker processes lost (C04.3 mp, F36) "
           "and progress events of worker processes lost (C18 events_parallel, open finding K08)",
}
ENGINES = [
    {"name": "pysym", "path": "vf/pysym", "serves_properties": ["C17", "C07", "C06", "C09", "C10", "C12", "C04", "C18", "C08", "C15", "C01", "C14", "C16", "C03", "C19", "C02", "C05", "C11", "C20"],
     "kind_free_text": "bounded path-forking symbolic interpreter over the AST of the real py7zr sources (re-parsed "
                       "from /repo on every run), z3 bit-vectors / integers / ropes; solver verdict per path"},
]
NOTES = ("Exit codes: 0 all obligations HOLD within their bounds; 1 a replayed violation not listed in "
         "known_findings.json; 2 inconclusive / harness error (never reported as success). Every verdict is bounded; "
         "bounds, stubs and assumptions are in evidence/<id>.json.")
B = "B: vf/pysym (AST symbolic interpreter + z3)"
RD_NOTE = ("codec libraries replaced by a decoder contract stub (next r bytes of the folder's ideal stream, r<=max_length, "
           "progress while output remains; <= unroll decoder calls per member, longer paths cut and counted); CRC of decoded data "
           "= identity of the byte range; NUMBER token summary (lemma L0, C17); reference writer/reader pair in /verif is the "
           "oracle; archive shapes (entry kinds, folder partition, layout options) are an enumerated bound, all sizes, CRCs, "
           "timestamps, pack sizes symbolic")
WR_NOTE = ("codec libraries replaced by a contract stub (consumes the source, writes an arbitrary number of packed bytes, "
           "accounts packsize/unpacksizes as the interface promises); NUMBER token summary (lemma L0, C17); CRC32 collision-free "
           "abstraction; the independent reference reader/writer in /verif is the oracle; session shapes are an enumerated bound, "
           "all sizes/CRCs/timestamps symbolic; payload bytes and real codecs are outside")
CHECKS = {
    "C05": dict(engine=B, ref="DESIGN.md §3 (C05)",
                technique="bounded symbolic execution of the real section parsers from the AST on every input of N bytes with a "
                          "count budget (a loop/allocation driven by a declared count that is not bounded by the input size is a "
                          "counterexample), one-step progress queries on the real decode loops with a decoder stub that may run "
                          "dry, and get_memory_limit over all resource-limit values; z3 decides",
                text="(1) PackInfo/UnpackInfo/SubstreamsInfo/FilesInfo._read on all byte strings of 2-5 (6) bytes: every exception is "
                     "an ordinary Exception subclass; allocation/loop sites driven by declared counts are found and reported (open "
                     "known findings K01-K04, replayed with 42-57-byte archives under RLIMIT_AS); (2) Worker.decompress and the "
                     "encoded-header loop of Header._read make progress or raise on every step even when the decoder returns "
                     "nothing and takes no input (fixed F16/F17); (3) get_memory_limit() for every RLIMIT_DATA / available-memory "
                     "value (found and repaired: 0 or negative at or below 256 MB, F30); (4) every call sequence of length 2 (3) "
                     "over extractall/extract/testzip terminates, including decoding twice WITHOUT reset() (an exhausted decoder "
                     "answers nothing); (5) every decoder wrapper forwards the caller's max_length to its decoder, so no wrapper "
                     "produces output beyond what was asked for (shared with C20).",
                note="time/memory inside the C decoders, interpreter crashes, wrong-password flows (C11) and input-bounded quadratic "
                     "costs are outside; input length N and loop observations bounded as stated"),
    "C11": dict(engine=B, ref="DESIGN.md §3 (C11)",
                technique="bounded symbolic execution of the real AES buffering (rope domain, taint by segment source), header-mode "
                          "setters + Header.write/_encode_header in a write session, AESCompressor.__init__/"
                          "encode_filter_properties with RNG/cipher stubs, SevenZipDecompressor.__init__; z3 decides",
                text="Plumbing only: (1) AESCompressor output consists of cipher output only and the cipher sees input++padding in "
                     "order; (3) for every constructor flag and setter sequence of length <= 2 (3) the final header mode is the "
                     "documented one, with header encryption the member name never reaches the file in clear and the header chain "
                     "ends in 7zAES, a password with default filters - the EMPTY string included - makes the payload chain end in "
                     "7zAES; (4) the IV given to AES and stored in the coder properties is the RNG output, the RNG is asked for 16 "
                     "bytes once per compressor and again for the next compressor (default arguments are evaluated at definition "
                     "time, as Python does); "
                     "(5) any coder list of 1-4 coders containing 7zAES with password None raises PasswordRequired before any "
                     "decoder is built; (6) a wrong key = garbage decoder output is never delivered (C04 obligations).",
                note="AES-CBC, SHA-256, KDF cost, statistical distinctness of IVs and 'no decodable compressed form' need the real "
                     "codecs: outside"),
    "C20": dict(engine=B, ref="DESIGN.md §3 (C20)",
                technique="bounded symbolic execution of the real Worker.decompress/SevenZipCompressor/SevenZipDecompressor and the "
                          "decoder wrappers from the AST with recording stubs; z3 decides the per-step accounting",
                text="py7zr's own accounting only: every decoder request is within min(what the folder still holds, memory limit), "
                     "source and archive reads are at most one block, bytes carried between calls equal produced minus delivered, "
                     "every stage of a decoder chain is asked for at most what the caller asked for, "
                     "LZMA1/PPMd wrappers forward the caller's limit to the decoder (the wrappers that cannot are enumerated), "
                     "get_memory_limit() range (always between one read block and 128 MB). Peak RSS and the 700 MiB figure are NOT decided.",
                note="resident memory, allocation inside the C codecs and GB-sized members need measurement: outside this technique"),
    "C02": dict(engine=B, ref="DESIGN.md §3 (C02)",
                technique="bounded symbolic execution of the real _make_file_info + ArchiveFile decoding from the AST over a symbolic "
                          "st_mode (bit-vectors), of ArchiveTimestamp.from_datetime/totimestamp over a per-binade linear model "
                          "of IEEE-754 rounding, of _writeall on a stub node of symbolic kind, and of _extract incl. its post-pass "
                          "on an in-memory filesystem model; z3 decides",
                text="Decided for the metadata path of ONE member (not for trees): (a) for every st_mode with type REG/DIR/LNK and any "
                     "permission bits, every target mode and both dereference settings, the stored attribute word decodes back to "
                     "the same kind (directory / symlink / file), emptystream iff directory, posix_mode == S_IMODE of the effective "
                     "mode; (b) for every double mtime in 1970..2100 the FILETIME conversion and back stays within 5 microseconds; "
                     "(c) one step of the _writeall walk for every node kind (file, directory, link to file / directory / nothing, "
                     "other) x dereference: exactly the right nodes are written and recursed into, children in sorted order; "
                     "(d) end to end for one member (file, empty file, directory; optionally followed by a symbolic link to it): "
                     "source permission bits -> real _make_file_info -> reference-written archive -> real reader -> real _extract "
                     "post-pass on the filesystem model: chmod receives exactly the source's 12 permission bits, utime the stored "
                     "FILETIME (only when defined), the link is re-created with its target and nothing else is stamped; "
                     "(e) Worker._find_link_target stores a relative link's own text for every link place, link text and set of "
                     "members archived before it (symbolic choices from tables).",
                note="whole trees, real symlinks and syscalls, name handling on disk and the shutil/CLI front ends are outside; "
                     "float model = exact result + |error| <= half an ulp per binade (relaxed, sound over-approximation) with the "
                     "rule that doubles >= 2^53 are integers; the filesystem is the model of vf/harness/fakefs.py (validated "
                     "against the real OS on a scripted battery each run)"),
    "C03": dict(engine=B, ref="DESIGN.md §3 (C03)",
                technique="bounded symbolic execution of the real get_sanitized_output_path / is_path_valid / canonical_path / "
                          "is_relative_to from the AST over symbolic path components (lexical containment) and of the real "
                          "_extract on an in-memory filesystem model with symbolic names/targets (physical containment); z3 decides",
                text="(1) for every member name of up to 5 (6) components over {'', '.', '..', a, b, 'c:', probe name} and an "
                     "absolute destination or no destination (current directory): get_sanitized_output_path raises Bad7zFile or "
                     "returns a path whose location, after lexical '..' resolution, is the destination or beneath it; (2) every "
                     "link target of up to 4 (5) components that is_path_valid accepts resolves lexically inside the destination; "
                     "(3) the real _extract/_extract_single run on an in-memory POSIX filesystem model for archives of up to 3 "
                     "entries (links, files, directories; names and link targets symbolic choices from tables, incl. a sibling "
                     "directory sharing the destination's name as prefix): every mkdir/open/symlink/chmod/utime lands physically "
                     "inside the destination (this found the chain-of-links escape, repaired as F29).",
                note="pathlib model validated against real PurePosixPath each run, the filesystem model against the real OS on a "
                     "scripted battery each run; alphabet/length/tables are the bound; races, Windows junctions, pre-existing "
                     "links in the destination are outside"),
    "C19": dict(engine=B, ref="DESIGN.md §3 (C19)",
                technique="z3 strings/regular expressions generated from the live compiled pattern and dict (volume sizes) and bounded "
                          "symbolic execution of the real Cli.run_test/run_extract from the AST against an archive stub failing at "
                          "a symbolic point",
                text="(1) every string of length <= 12 accepted by the live volume-size pattern converts without raising to "
                     "digits x unit multiplier (1 without unit), and the forms the help describes are accepted; (2) run_test and "
                     "run_extract return 0 only if the archive stub reported success; with a failure injected at open / "
                     "archiveinfo / extractall / testzip (raising any of the library's exception classes, or testzip reporting a "
                     "member) they return non-zero or let the exception escape.",
                note="process exit status, argparse, printed text and the c/x/a tree round trips (delegated to the C02/C08 kernels) "
                     "are outside; SevenZipFile, open, is_7zfile are stubs"),
    "C16": dict(engine=B, ref="DESIGN.md §3 (C16)",
                technique="bounded symbolic execution of the real check_archive_path/is_path_valid/canonical_path/is_relative_to "
                          "and _sanitize_archive_arcname from the AST over symbolic path components / characters; z3 decides "
                          "agreement with an independent lexical definition",
                text="For every name of up to 5 (6) components over {'', '.', '..', a, b, 'c:', the internal probe directory name} "
                     "(so leading '/', '//', trailing '/', doubled separators are covered) the verdict of check_archive_path equals "
                     "the independent definition (reject iff absolute or the depth goes negative); for every string of up to 5 (7) "
                     "characters over {'/', ':', '.', 'a', 'C', backslash} _sanitize_archive_arcname returns a name that is not "
                     "absolute and has no drive prefix, or raises AbsolutePathError; the writestr/writef gate itself (ValueError, "
                     "state unchanged) is obligation C15.badname.",
                note="pathlib pure-path operations are a model validated against real PurePosixPath on the whole alphabet each run; "
                     "component alphabet and length are the bound; random long Unicode names and the Windows flavour are outside"),
    "C01": dict(engine=B, ref="DESIGN.md §3 (C01)",
                technique="bounded symbolic execution of the real buffering kernels from the AST in a rope domain (content-abstract "
                          "byte strings with symbolic, unbounded lengths) and of the real create session + reader on its header; z3 "
                          "(LIA) decides path∧¬post",
                text="Relative to the codec contract: (1) AESCompressor/AESDecompressor hand the cipher only multiples of 16 bytes, "
                     "in order, input++zero padding, and return exactly the cipher's output, for 1-3 (4) chunks of any length; "
                     "(2) SevenZipCompressor.compress/flush with 1-3 (4) FIFO stages: the whole source is read in blocks <= block "
                     "size, fp receives exactly the last stage's output, packsize/digest/per-stage unpack sizes/member CRC cover "
                     "exactly those bytes; (3) SevenZipDecompressor.decompress over 2-3 (4) calls with any max_length, block size, "
                     "short reads, limit-honouring or -ignoring stages: chunks concatenate to a prefix of the ideal stream, each <= "
                     "max_length, delivered+carried = produced, consumed <= packed size, digest covers what was returned, every "
                     "stage is asked for at most the caller's limit; (4) what a create session writes into the header - raw, or "
                     "encoded through Header._encode_header and read back through the encoded-header branch - is read back by the "
                     "real reader with the same names, order, sizes, CRCs, kinds; (5) UTF-16 names of every scalar value round-trip.",
                note=WR_NOTE + "; rope domain is exact only for code that does not inspect content; loop/ call counts bounded as "
                     "stated, lengths unbounded; codecs, real files, multi-volume targets, parameter ranges are outside"),
    "C14": dict(engine=B, ref="DESIGN.md §3 (C14)",
                technique="bounded symbolic execution of the real closing sequence (operation log with symbolic positions) and of "
                          "SignatureHeader write/_read on torn images new[0:p]++old[p:32] for all 33 prefixes; CRC collision-free; z3 decides",
                text="(1) in create and append sessions every write at an offset >= 32 precedes the final 32-byte signature-header "
                     "rewrite, and the placeholder written first overwrites every byte of [0,32) and cannot verify; (2) for every prefix p of the final rewrite and every "
                     "value of the old and new header fields, a torn signature header that the real reader accepts is byte-identical "
                     "to the new header (commit happened) or, in append, to the old one; (3) appends write nothing into the old "
                     "packed area (C08 obligation, re-checked on the log); (4) a crash inside the placeholder write: EVERY file "
                     "shorter than 32 bytes (symbolic content) is rejected by _check_7zfile + SignatureHeader._read, as is the "
                     "complete placeholder.",
                note="crash = prefix of the ordered write stream at byte granularity; OS reordering / dropped blocks, multivolume "
                     "files and CRC collisions are outside; codec stub and NUMBER tokens as in C07"),
    "C08": dict(engine=B, ref="DESIGN.md §3 (C08)",
                technique="bounded symbolic execution of the real reader on a reference-written base header followed by the real "
                          "append path (_prepare_append, Header.initialize, _writef/write, flush_archive, Header.write) from the "
                          "AST; result parsed by the independent reference reader; z3 decides",
                text="For every base layout of the shape set (incl. implicit substream sizes, folder-level CRCs, PackPos>0, partial "
                     "attribute vectors, no packed streams, no time/attribute property, a folder without members) and append sessions "
                     "adding 0-2 (3 thorough) members of kinds data / directory / symbolic link: every old member "
                     "keeps name, kind, size, CRC, times, attributes, folder and offset; new members follow in order in a new "
                     "folder; old packed streams keep offset and size; the session writes nothing inside the old packed area and "
                     "starts exactly behind it; the new signature header describes the new header.",
                note=WR_NOTE + "; encoded-header bases and writeall walks are outside"),
    "C15": dict(engine=B, ref="DESIGN.md §3 (C15)",
                technique="bounded symbolic execution of the real write/writestr/writef/close paths from the AST with a fault "
                          "injected at each point (argument rejected, lstat/open/readlink raises, source read raises before/after "
                          "consumption); closed archive parsed by the reference reader; z3 decides",
                text="With 0-1 (2) earlier and 0-1 (2) later successful calls around one faulty call: the exception reaches the "
                     "caller (ValueError for rejected names/types), later calls and close() are unaffected (the failed source is "
                     "not retried), and for faults before any byte was consumed the closed archive lists exactly the successful "
                     "members with their sizes and CRCs.",
                note=WR_NOTE + "; content after a midway source failure is left to the CRC checks (C04); faults inside codecs outside"),
    "C18": dict(engine=B, ref="DESIGN.md §3 (C18)",
                technique="bounded symbolic execution of the real _extract/Worker.extract/_extract_single/decompress/reporter/close "
                          "from the AST with a recording queue, a symbolic non-decreasing clock and symbolic decoder chunking",
                text="Single-worker event stream only: for every selection, chunking and clock the queue receives 'pre' first and "
                     "'post' last, one start and later one end event per processed member carrying its name and size, update "
                     "payloads of a delivered member sum to its size; reporter() dispatches every item kind to the right "
                     "callback in order, survives empty-queue timeouts, stops at the sentinel; close() posts the sentinel and "
                     "joins; over call sequences with callbacks in one session a reporter thread is started only when no earlier "
                     "one still listens to the queue; in the parallel branch (worker threads, and worker processes under a stand-in "
                     "that works on copies of its arguments) every member's start and end event reaches the session's queue "
                     "(open finding K08 for processes). Interleavings of worker and reporter threads, blocking callbacks and 'none after close()' are NOT "
                     "decided (no scheduler in this technique).",
                note=RD_NOTE + "; threading.Thread is a stub; schedules are outside"),
    "C04": dict(engine=B, ref="DESIGN.md §3 (C04)",
                technique="bounded symbolic execution of the real open/extract/testzip/test code from the AST against an adversarial "
                          "decoder stub (decoded stream altered from a symbolic offset) with CRC32 as a collision-free abstraction; "
                          "z3 decides 'success => every delivered member is unaltered'",
                text="(1) SignatureHeader._read on all 2^256 header images accepts only when the stored CRC covers bytes 12..31; "
                     "(2) opening accepts only when the stored next-header CRC is the CRC of exactly the header bytes; (3) with one "
                     "folder's decoded stream damaged from any offset, every selection, extraction to a factory or to paths "
                     "(regular and symlink members) and testzip: a normal return implies that no delivered member contains an "
                     "altered byte / testzip()==None implies no member is damaged - also for an archive opened by path with mp=True, "
                     "where the workers are processes (stand-in: sequential, working on copies of their arguments); (4) test()==True implies every packed stream "
                     "with a defined CRC is unaltered, for every defined-vector and block size.",
                note=RD_NOTE + "; what real decoders do with damaged input (raise or garbage) is covered by the stub allowing both; "
                     "CRC collisions and members stored without CRC are outside"),
    "C12": dict(engine=B, ref="DESIGN.md §3 (C12)",
                technique="bounded symbolic execution of the real read-session methods from the AST, one shard per allowed call "
                          "sequence, stateful position-tracking decoder stubs cached by the real Folder.get_decompressor; z3 decides",
                text="For every allowed call sequence of length <= 2 (3 thorough) over listings/test/testzip/extractall/extract/"
                     "reset, on single- and multi-folder archives opened from a stream or by path (the thread-parallel branch under a "
                     "sequential thread stand-in: one schedule) and archives without streams, with all sizes "
                     "and CRCs symbolic: every call returns what it returns on a fresh archive (delivery ranges, verdicts None/True "
                     "on an intact archive, full decode from the start of every folder for testzip), no call hangs on an exhausted "
                     "decoder, nothing is written to the archive file, and mode 'r' opens the file 'rb' only.",
                note=RD_NOTE + "; interleavings of the thread-parallel branch are outside (C13); sequences ended by exceptions "
                     "other than those the stubs raise are outside"),
    "C09": dict(engine=B, ref="DESIGN.md §3 (C09)",
                technique="bounded symbolic execution of the real extract()/_extract/Worker.extract/_extract_single/_check from the "
                          "AST; the target set is symbolic (one boolean per member); z3 decides path∧¬post",
                text="For solid and multi-folder archives with directories and empty files (enumerated shapes) and every subset T of "
                     "the member names (list or set, with/without trailing slash and an absent name, recursive on/off) the factory "
                     "receives exactly the selected existing members, each with exactly its byte range of its folder's decoded "
                     "stream, and nothing is written to the archive; extract(<directory>, T) on the filesystem model creates exactly "
                     "the selected members (with their byte ranges) and the parent directories they need, nothing else.",
                note=RD_NOTE + "; the parallel branch is outside here (C06.P); the filesystem is the model of vf/harness/fakefs.py"),
    "C10": dict(engine=B, ref="DESIGN.md §3 (C10)",
                technique="bounded symbolic execution of the real listing interfaces (getnames/namelist/list/getinfo/archiveinfo/"
                          "needs_password, get_methods_names, SupportedMethods) from the AST on reference-written headers",
                text="On every enumerated layout with symbolic sizes/CRCs: the four name listings agree with the stored order, "
                     "FileInfo sizes/CRCs/directory flags equal what the format assigns (and what extraction delivers, C06), "
                     "getinfo finds every name with or without trailing slash and raises KeyError otherwise, archiveinfo totals, "
                     "block count, solid flag and method names match the coders present, needs_password is true exactly when an "
                     "AES coder is present or a password was supplied; get_methods_names names every coder of every chain of 1-2 "
                     "(3) coders picked symbolically from the live table of supported methods, once, and nothing else - also for two "
                     "(three) folders whose chains share their first or last coder; the time list() shows for a member is its own "
                     "LastWriteTime, none where the archive stores none.",
                note=RD_NOTE + "; os.stat and FILETIME->datetime are stubs"),
    "C06": dict(engine=B, ref="DESIGN.md §3 (C06)",
                technique="bounded symbolic execution of the real reader (_real_get_contents, Header/*Info._read, Worker.extract, "
                          "_extract_single, decompress) from the AST on reference-written headers with symbolic values; z3 decides",
                text="For every layout in the enumerated shape set (1-3 folders, solid/non-solid, directory/empty-file entries "
                     "interleaved, folder-level or per-file or no CRCs, packed CRCs, PackPos>0, kDummy, EmptyFile vector, partially "
                     "defined or absent attribute/time vectors, absent SubStreamsInfo, a folder without members) and every value of "
                     "the sizes/CRCs/timestamps, the real reader reports the names, kinds, sizes, digests, times, attributes and "
                     "folder the format assigns, and extractall feeds every member exactly its byte range of its folder's decoded "
                     "stream, read from where the packed stream lies - to a factory, by path through the thread-parallel branch "
                     "(sequential stand-in, one schedule), and to a directory on the filesystem model incl. the utime/chmod post-pass. "
                     "(B) differential on section bytes: every byte string of N bytes (and fixed prefixes with free tails reaching "
                     "the digest vectors) through PackInfo/UnpackInfo/SubstreamsInfo._read and through the reference parser, both "
                     "interpreted on the same symbolic bytes: what the reference accepts, py7zr accepts with the same meaning and "
                     "the same number of bytes consumed; and the state just read, written back by the section's own write(), means "
                     "the same to the reference again (read -> write -> reference).",
                note=RD_NOTE),
    "C07": dict(engine=B, ref="DESIGN.md §3 (C07)",
                technique="bounded symbolic execution of the real write path (writestr/write/close, Header.write, SignatureHeader) "
                          "from the AST with a codec-contract stub; output parsed by an independent reference reader interpreted "
                          "on the same symbolic bytes; z3 decides path∧¬post",
                text="For create sessions of up to 3 (5 thorough) members of kinds writestr/file/directory/symlink and 1-3 coder "
                     "stages, with every member size, packed size, CRC and timestamp symbolic, the header bytes the real writer "
                     "emits are accepted by a reader written from the format text, carry the names/flags/sizes/CRCs that were "
                     "written, every declared property size equals the bytes that follow, packed sizes tile the data area and "
                     "the signature header's offset/size/CRCs describe the bytes on disk; for every filter list of the documented "
                     "chains (with and without 7zAES) the coder chain built by SevenZipCompressor and rebuilt by "
                     "SevenZipDecompressor has the same stages in mirrored order and per-stage unpack sizes that describe what each "
                     "stage consumed; the wrapper written around an encoded or encrypted header is read by the reference and says "
                     "where the packed header lies, how long it is and how long the raw header is. The primitive codecs (lemma L0) "
                     "are re-proved over their full domains.",
                note="codec libraries replaced by a contract stub; NUMBER fields summarised as tokens justified by L0; CRC32 "
                     "collision-free abstraction; member count/kinds enumerated as stated bounds; an independent reader "
                     "*decoding* real payloads and 7zAES key derivation are outside"),
    "C17": dict(engine=B, ref="DESIGN.md §3 (C17)",
                technique="bounded symbolic execution of the real primitives from their AST; z3 decides path∧¬post on every path",
                text="For the NUMBER codec the value ranges over the whole 0..2^64-1 domain (and every 9-byte string for the "
                     "decoder, against a decoder written from the specification), for boolean vectors every length 0..130 with "
                     "symbolic contents, for UTF-16 names every scalar value at lengths 0..4 (6 thorough), for CRC/UINT lists "
                     "and the times/attributes sections (incl. their declared property size) every value and every "
                     "defined-subset for up to 5 (9) files: the solver shows write∘read is the identity on every path.",
                note="bounded: list/name lengths as stated; stdlib primitives (struct, int.to_bytes, BytesIO, utf-16 codec) are "
                     "models validated against the real callee on concrete vectors each run; whole-header round trip and encoded "
                     "headers are covered by C07/C01 obligations"),
}
